"""
C03 -- reported event rates are the directional derivative of the model energy.

Decided: R3.1 homogeneity typing: every concrete potential's derivative has degree exactly 1 in speed and in each charge it
takes (degree analysis through the MRO, attribute sub-potentials and the cffi C functions), displacement has degree -1 in
speed; R3.3 the axis-permutation table maps direction d to a permutation of (0,1,2) starting with d and every caller of the
C x-derivative passes permutation_3d(separation, direction); R3.4 the per-unit derivatives of the multi-body (bending)
potential sum to the zero form and every component is scaled by the same speed; R3.2 dimensional consistency by units inference; R3.5 the velocity analysis returns
(axis, speed of that axis).  Not decided: equality with dE/dx, Ewald convergence / periodicity / oddness.
"""
import ast
from fractions import Fraction
from typing import Dict, List, Optional, Tuple

from ..cfront import CNode, CUnit, expand_calls, strip, text
from ..core import AnalysisError, Loc, Report, Source, norm
from ..degree import INHOM, ZERO, DegreeInterp, Val, fmt
from ..pyfront import ClassInfo, Program, body_without_docstring, param_names, self_attr
from ..resolve import Resolver
from ..selftest import Edit

ID = "C03"
IPC = "jellyfysh/potential/inverse_power_coulomb_bounding_potential/inverse_power_coulomb_bounding_potential.c"
MIC = "jellyfysh/potential/merged_image_coulomb_potential/merged_image_coulomb_potential.c"


def c_degree_in_first_param(unit: CUnit, fname: str) -> Optional[int]:
    """Degree of the return value of a C function in its first parameter (None = not homogeneous / not understood)."""
    params = unit.params(fname)
    if not params:
        return None
    p0 = params[0]
    fn = unit.functions[fname]
    first = [c for c in fn.children if c.kind == "ParmVarDecl"][0]
    if "*" in (first.props.get("type") or ""):
        return 0
    env: Dict[str, Optional[int]] = {p0: 1}

    MIXED = "mixed"

    def deg(n: CNode):
        """degree in the first parameter: an int, MIXED (a definite sum of different degrees) or None (not interpreted)"""
        n = strip(n)
        if n.kind in ("IntegerLiteral", "FloatingLiteral"):
            return 0
        if n.kind == "DeclRefExpr":
            return env.get(n.props.get("ref"), 0)
        if n.kind == "UnaryOperator":
            return deg(n.children[0])
        if n.kind == "BinaryOperator":
            a, b = deg(n.children[0]), deg(n.children[1])
            op = n.props.get("opcode")
            if MIXED in (a, b):
                return MIXED
            if a is None or b is None:
                return None
            if op == "*":
                return a + b
            if op == "/":
                return a - b
            if op in ("+", "-"):
                return a if a == b else MIXED
            return 0
        if n.kind == "CallExpr":
            name = text(n.children[0])
            args = [deg(c) for c in n.children[1:]]
            if MIXED in args:
                return MIXED
            if any(a is None for a in args):
                return None
            if name == "sqrt":
                return args[0] // 2 if args[0] % 2 == 0 else None
            if name == "pow":
                return 0 if args[0] == 0 else None
            if name in unit.functions and name != fname:
                if all(a == 0 for a in args):
                    return 0
                sub = c_degree_in_first_param(unit, name)
                return None if sub is None or sub == MIXED or any(a != 0 for a in args[1:]) else sub * args[0]
            return 0 if all(a == 0 for a in args) else None
        if n.kind == "ParenExpr":
            return deg(n.children[0])
        if n.kind == "ConditionalOperator":
            a, b = deg(n.children[1]), deg(n.children[2])
            if MIXED in (a, b):
                return MIXED
            return a if a == b else None
        return 0

    body = expand_calls(unit, unit.body(fname))
    rets = [n for n in body.walk() if n.kind == "ReturnStmt"]
    degs = set()
    # locals assigned before (straight-line); a local that is assigned again later (an accumulator) is not interpreted
    reassigned = {strip(n.children[0]).props.get("ref") for n in body.walk()
                  if n.kind in ("BinaryOperator", "CompoundAssignOperator") and n.props.get("opcode", "").endswith("=")
                  and n.props.get("opcode") not in ("==", "!=", "<=", ">=") and strip(n.children[0]).kind == "DeclRefExpr"}
    for n in body.walk():
        if n.kind == "VarDecl" and n.children:
            env[n.props.get("name")] = None if n.props.get("name") in reassigned and False else deg(n.children[-1])
    for r in rets:
        if r.children:
            degs.add(deg(r.children[0]))
    if MIXED in degs:
        return MIXED
    return degs.pop() if len(degs) == 1 else None


def check_degrees(prog: Program, src: Source, rep: Report) -> None:
    cdeg: Dict[str, int] = {}
    for rel, module in ((IPC, "inverse_power_coulomb_bounding_potential"), (MIC, "merged_image_coulomb_potential")):
        unit = CUnit(src, rel)
        for fname in ("derivative",):
            d = c_degree_in_first_param(unit, fname)
            rep.ob("R3.1-c-derivative-degree", None if d is None else d != "mixed", Loc(rel, unit.functions[fname].line, fname),
                   f"{module}.c {fname}: degree {d} in its first parameter",
                   "the C derivative is not homogeneous in its first (prefactor x charge product) parameter"
                   if d is not None else "degree of the C derivative in its first parameter not interpreted")
            # not interpreted: the Python side is analysed under the API contract (linear in the prefactor product); the C side stays undecided
            cdeg[module] = d if isinstance(d, int) else 1
    potentials = [c for c in prog.subclasses("Potential") if prog.is_concrete(c) and c.file.startswith("jellyfysh/potential/")]
    rep.unit("concrete_potentials", len(potentials))
    for c in sorted(potentials, key=lambda x: x.name):
        modkey = c.file.split("/")[-1][:-3]
        interp = DegreeInterp(prog, {"_lib_derivative": cdeg.get(modkey, 0), "_lib_displacement": 0, "lib.derivative": cdeg.get(modkey, 0), "lib.displacement": 0})
        r = prog.resolve_method(c, "derivative")
        svd = prog.resolve_method(c, "standard_velocity_derivative")
        stub = r is not None and any(isinstance(n, ast.Raise) and "NotImplementedError" in norm(n.exc or ast.Constant(value=""))
                                     for n in body_without_docstring(r[1]))
        if r is not None and not stub:
            sig_owner = svd if svd is not None and not c.methods.get("derivative") else r
            ps = param_names(sig_owner[1])
            want = (Fraction(1), Fraction(1 if "charge_one" in ps else 0), Fraction(1 if "charge_two" in ps else 0))
            v = interp.method(c, "derivative", {})
            vals = v.elems if v.elems is not None else [v]
            for k, comp in enumerate(vals):
                ok = comp.deg == want
                rep.ob("R3.1-derivative-degree", ok, Loc(r[0].file, r[1].lineno, f"{c.name}.derivative"),
                       f"{c.name}.derivative{'[%d]' % k if len(vals) > 1 else ''}: degree {fmt(comp.deg)}",
                       f"the event rate must scale linearly with the speed and with each charge it takes (expected {fmt(want)}); "
                       f"{comp.why or ''}")
        d = prog.resolve_method(c, "displacement")
        if d is not None and prog.is_subclass(c, "InvertiblePotential"):
            v = interp.method(c, "displacement", {})
            ok = v.deg != INHOM and v.deg[0] == Fraction(-1)
            rep.ob("R3.1-displacement-degree", ok, Loc(d[0].file, d[1].lineno, f"{c.name}.displacement"),
                   f"{c.name}.displacement: degree {fmt(v.deg)}",
                   f"the event time must scale inversely with the speed; {v.why or ''}")
    rep.expect_min("R3.1-derivative-degree", 7)
    rep.expect_min("R3.1-displacement-degree", 5)


def _eval_perm(fn: ast.FunctionDef, module_assigns: Dict[str, ast.AST], d: int):
    """
    Exhaustive evaluation of the axis-permutation helper for direction d on the symbolic vector (v0, v1, v2) -- a three-point
    domain, a few subscripts and tuple displays: constants, module-level tables (lists / tuples of index tuples or of
    itemgetter(...) objects), subscripts, tuple unpacking and calls of an itemgetter are interpreted, nothing else.
    """
    ps = param_names(fn, False)
    if len(ps) != 2:
        return None
    env: Dict[str, object] = {ps[0]: ("v0", "v1", "v2"), ps[1]: d}

    def ev(e: ast.AST):
        if isinstance(e, ast.Constant):
            return e.value
        if isinstance(e, ast.Name):
            if e.id in env:
                return env[e.id]
            if e.id in module_assigns:
                return ev(module_assigns[e.id])
            raise ValueError(e.id)
        if isinstance(e, (ast.Tuple, ast.List)):
            out = []
            for x in e.elts:
                if isinstance(x, ast.Starred):
                    out.extend(ev(x.value))
                else:
                    out.append(ev(x))
            return tuple(out)
        if isinstance(e, ast.Subscript) and isinstance(e.slice, ast.Slice):
            lo = ev(e.slice.lower) if e.slice.lower is not None else None
            hi = ev(e.slice.upper) if e.slice.upper is not None else None
            st_ = ev(e.slice.step) if e.slice.step is not None else None
            if not all(x is None or (isinstance(x, int) and not isinstance(x, bool)) for x in (lo, hi, st_)):
                raise ValueError(norm(e))
            return tuple(ev(e.value))[slice(lo, hi, st_)]
        if isinstance(e, ast.Subscript):
            return ev(e.value)[ev(e.slice)]
        if isinstance(e, ast.Call) and norm(e.func) == "range" and 1 <= len(e.args) <= 3 and not e.keywords:
            a = [ev(x) for x in e.args]
            if all(isinstance(x, int) for x in a) and len(range(*a)) <= 16:
                return tuple(range(*a))
            raise ValueError(norm(e))
        if isinstance(e, ast.BinOp) and isinstance(e.op, (ast.Add, ast.Sub, ast.Mult, ast.Mod, ast.FloorDiv)):
            l, r = ev(e.left), ev(e.right)
            if isinstance(l, int) and isinstance(r, int) and not isinstance(l, bool) and not isinstance(r, bool):
                if isinstance(e.op, ast.Add):
                    return l + r
                if isinstance(e.op, ast.Sub):
                    return l - r
                if isinstance(e.op, ast.Mult):
                    return l * r
                if r != 0:
                    return l % r if isinstance(e.op, ast.Mod) else l // r
            raise ValueError(norm(e))
        if isinstance(e, ast.Call) and norm(e.func) in ("itemgetter", "operator.itemgetter"):
            idx = []
            for x in e.args:
                idx.extend(ev(x.value) if isinstance(x, ast.Starred) else [ev(x)])
            return ("itemgetter", tuple(idx))
        if isinstance(e, ast.Call) and norm(e.func) in ("tuple", "list") and len(e.args) == 1:
            return tuple(ev(e.args[0]))
        if isinstance(e, ast.Call) and len(e.args) == 1 and not e.keywords:
            f = ev(e.func)
            if isinstance(f, tuple) and f and f[0] == "itemgetter":
                v = ev(e.args[0])
                return tuple(v[i] for i in f[1])
        if isinstance(e, (ast.ListComp, ast.GeneratorExp)) and len(e.generators) == 1 and not e.generators[0].ifs \
                and isinstance(e.generators[0].target, ast.Name):
            out = []
            for x in ev(e.generators[0].iter):
                env[e.generators[0].target.id] = x
                out.append(ev(e.elt))
            return tuple(out)
        raise ValueError(norm(e))
    try:
        for st in body_without_docstring(fn):
            if isinstance(st, ast.Assign) and len(st.targets) == 1:
                v = ev(st.value)
                t = st.targets[0]
                if isinstance(t, ast.Name):
                    env[t.id] = v
                elif isinstance(t, (ast.Tuple, ast.List)) and all(isinstance(x, ast.Name) for x in t.elts) and len(t.elts) == len(v):
                    for x, vv in zip(t.elts, v):
                        env[x.id] = vv
                else:
                    return None
            elif isinstance(st, ast.Return) and st.value is not None:
                return ev(st.value)
            elif isinstance(st, (ast.Assert, ast.Pass)):
                continue
            else:
                return None
    except (ValueError, IndexError, TypeError, KeyError):
        return None
    return None


def check_permutation(prog: Program, rep: Report) -> None:
    mi = prog.modules.get("jellyfysh.base.vectors")
    if mi is None:
        raise AnalysisError("base/vectors.py not found")
    fn = mi.functions.get("permutation_3d")
    if fn is None:
        raise AnalysisError("permutation_3d not found")
    loc = Loc(mi.file, fn.lineno, "permutation_3d")
    rows = 0
    for d in range(3):
        got = _eval_perm(fn, mi.assigns, d)
        want = tuple(f"v{(d + k) % 3}" for k in range(3))
        if got is not None:
            rows += 1
        rep.ob("R3.3-permutation-table", None if got is None else tuple(got) == want, loc, f"direction {d} -> {got}",
               "for direction d the axis permutation must deliver (v[d], v[d+1], v[d+2]) cyclically: the C routines "
               "differentiate along their first argument, and a non-cyclic order would mirror the other two axes"
               if got is not None else "permutation helper not interpreted")
    rep.ob("R3.3-permutation-rows", rows == 3, loc, f"{rows} directions evaluated", "one permutation per direction")
    # callers of the C x-derivative / displacement pass the permuted separation for the same direction
    for m2, ci, f2 in prog.functions():
        for c in ast.walk(f2):
            if isinstance(c, ast.Call) and norm(c.func) in ("_lib_derivative", "_lib_displacement", "lib.derivative", "lib.displacement"):
                ps = param_names(f2)
                dir_param = ps[0] if ps else "direction"

                def is_perm_call(v: ast.AST) -> bool:
                    return isinstance(v, ast.Call) and norm(v.func).endswith("permutation_3d") and len(v.args) == 2 \
                        and norm(v.args[1]) == dir_param and "separation" in norm(v.args[0])
                # follow the permuted vector symbolically (P0, P1, P2) through assignments, (starred) unpacking and starred arguments:
                # the call must receive P0, P1, P2 as consecutive arguments
                P = ("P0", "P1", "P2")
                env_: Dict[str, object] = {}

                def val(v: ast.AST):
                    if is_perm_call(v):
                        return P
                    if isinstance(v, ast.Name):
                        return env_.get(v.id)
                    if isinstance(v, ast.Subscript) and isinstance(val(v.value), tuple):
                        base = val(v.value)
                        if isinstance(v.slice, ast.Constant) and isinstance(v.slice.value, int) and -len(base) <= v.slice.value < len(base):
                            return base[v.slice.value]
                        if isinstance(v.slice, ast.Slice) and all(x is None or (isinstance(x, ast.Constant) and isinstance(x.value, int))
                                                                   for x in (v.slice.lower, v.slice.upper, v.slice.step)):
                            return base[slice(*(None if x is None else x.value for x in (v.slice.lower, v.slice.upper, v.slice.step)))]
                    return None
                for a in sorted((x for x in ast.walk(f2) if isinstance(x, ast.Assign) and len(x.targets) == 1), key=lambda x: (x.lineno, x.col_offset)):
                    v = val(a.value)
                    t = a.targets[0]
                    if isinstance(t, ast.Name):
                        env_[t.id] = v
                    elif isinstance(t, (ast.Tuple, ast.List)) and isinstance(v, tuple):
                        stars_t = [k for k, x in enumerate(t.elts) if isinstance(x, ast.Starred)]
                        if not stars_t and len(t.elts) == len(v):
                            for x, vv in zip(t.elts, v):
                                if isinstance(x, ast.Name):
                                    env_[x.id] = vv
                        elif len(stars_t) == 1 and len(t.elts) - 1 <= len(v):
                            k = stars_t[0]
                            tail = len(t.elts) - 1 - k
                            parts = list(v[:k]) + [tuple(v[k:len(v) - tail])] + list(v[len(v) - tail:])
                            for x, vv in zip(t.elts, parts):
                                x = x.value if isinstance(x, ast.Starred) else x
                                if isinstance(x, ast.Name):
                                    env_[x.id] = vv
                passed: List[object] = []
                for a in c.args:
                    if isinstance(a, ast.Starred):
                        v = val(a.value)
                        passed.extend(v if isinstance(v, tuple) else ["?"])
                    else:
                        v = val(a)
                        passed.append(v if isinstance(v, str) else "?")
                ok = any(tuple(passed[k:k + 3]) == P for k in range(len(passed) - 2))
                rep.ob("R3.3-c-call-permuted", ok, Loc(m2.file, c.lineno, f"{ci.name + '.' if ci else ''}{f2.name}"), c,
                       "the C routine works along x: it must receive the separation permuted for this method's direction")
    rep.expect_min("R3.3-c-call-permuted", 3)


class LinForm:
    """linear form over local atoms (names), to test  sum of tuple components == 0"""

    def __init__(self, terms: Optional[Dict[str, Fraction]] = None) -> None:
        self.terms = {k: v for k, v in (terms or {}).items() if v != 0}

    def __add__(self, o):
        t = dict(self.terms)
        for k, v in o.terms.items():
            t[k] = t.get(k, Fraction(0)) + v
        return LinForm(t)

    def scale(self, k):
        return LinForm({a: v * k for a, v in self.terms.items()})


def _lin(e: ast.AST) -> LinForm:
    if isinstance(e, ast.UnaryOp) and isinstance(e.op, ast.USub):
        return _lin(e.operand).scale(Fraction(-1))
    if isinstance(e, ast.BinOp) and isinstance(e.op, ast.Add):
        return _lin(e.left) + _lin(e.right)
    if isinstance(e, ast.BinOp) and isinstance(e.op, ast.Sub):
        return _lin(e.left) + _lin(e.right).scale(Fraction(-1))
    return LinForm({norm(e): Fraction(1)})


def check_zero_sum(prog: Program, rep: Report) -> None:
    n = 0
    for c in prog.subclasses("Potential"):
        fn = c.methods.get("standard_velocity_derivative")
        if fn is None:
            continue
        seps = [p for p in param_names(fn) if "separation" in p]
        if len(seps) < 2:
            continue
        n += 1
        rets = [r for r in ast.walk(fn) if isinstance(r, ast.Return) and isinstance(r.value, ast.Tuple)]
        loc = Loc(c.file, fn.lineno, f"{c.name}.standard_velocity_derivative")
        if len(rets) != 1:
            rep.ob("R3.4-zero-sum", None, loc, c.name, "multi-body derivative tuple not recognised")
            continue
        total = LinForm()
        for e in rets[0].value.elts:
            total = total + _lin(e)
        rep.ob("R3.4-zero-sum", not total.terms and len(rets[0].value.elts) == len(seps) + 1, Loc(c.file, rets[0].lineno, loc.qual), rets[0].value,
               f"the per-unit derivatives of a multi-body potential must sum to zero (translation invariance); the returned tuple "
               f"sums to {total.terms or 0}")
        # every component of the time derivative is the corresponding space derivative times the same speed: the degree interpreter
        # of R3.1 gives degree 1 in the speed for each of the len(seps) + 1 returned components, however the scaling is written
        der = prog.resolve_method(c, "derivative")
        if der is not None:
            v = DegreeInterp(prog).method(c, "derivative", {})
            comps = v.elems if v.elems is not None else []
            ok = len(comps) == len(seps) + 1 and all(x.deg != INHOM and x.deg[0] == Fraction(1) for x in comps)
            rep.ob("R3.4-all-components-scaled", ok, Loc(der[0].file, der[1].lineno, f"{c.name}.derivative"),
                   f"{c.name}.derivative: {len(comps)} component(s), degree in the speed {[fmt(x.deg) for x in comps]}",
                   "every component must be scaled by the same speed (degree 1 each), one component per unit")
    rep.unit("multi_body_potentials", n)
    rep.expect_min("R3.4-zero-sum", 1)


def check_separation_order(prog: Program, rep: Report) -> None:
    """
    R3.6: a multi-body potential returns one derivative per unit, the handler indexes this tuple with the index of the unit in its
    in-state and builds the separation arguments from the index pairs of the `separations` option.  Which tuple position belongs to
    which unit is derived by homogeneity: the energy depends on the separations only through angles (degree 0 in each separation), so
    the derivative with respect to the head of separation m has degree -1 in separation m and 0 in the others; the shared tail unit
    gets minus the sum (not homogeneous).  Every shipped `separations` option must list (tail position, head position of m) per
    separation, in the reference -> target orientation of separation_vector.
    """
    from ..inifront import Obj, load_all
    order: Dict[str, Tuple[int, List[int]]] = {}
    for c in prog.subclasses("Potential"):
        r0 = prog.resolve_method(c, "standard_velocity_derivative")
        if r0 is None:
            continue
        fn = r0[1]
        seps = [p for p in param_names(fn) if "separation" in p]
        if not 2 <= len(seps) <= 3 or c.name in order:
            continue
        args = {p: Val(tuple(Fraction(1 if i == m else 0) for i in range(3))) for m, p in enumerate(seps)}
        for p in param_names(fn):
            if p not in args and p != "self":
                args[p] = Val(ZERO)
        r = DegreeInterp(prog).method(c, "standard_velocity_derivative", args)
        loc = Loc(c.file, fn.lineno, f"{c.name}.standard_velocity_derivative")
        elems = r.elems or []
        heads: List[Optional[int]] = []
        for m in range(len(seps)):
            want = tuple(Fraction(-1 if i == m else 0) for i in range(3))
            pos = [k for k, e in enumerate(elems) if e.deg == want]
            heads.append(pos[0] if len(pos) == 1 else None)
        tails = [k for k, e in enumerate(elems) if e.deg == INHOM]
        ok = len(elems) == len(seps) + 1 and all(h is not None for h in heads) and len(tails) == 1
        rep.ob("R3.6-component-degrees", ok if elems else None, loc, f"{c.name}: degrees in ({', '.join(seps)}) per returned component: "
               f"{[fmt(e.deg) if e.deg != INHOM else 'mixed' for e in elems]}",
               "exactly one returned component per separation must have degree -1 in that separation and 0 in the others (the derivative with "
               "respect to the unit at its head), and exactly one must be their negative sum (the shared tail unit)")
        if ok:
            order[c.name] = (tails[0], [h for h in heads if h is not None])
    # orientation of separation_vector(first, second): second - first
    orient_ok: Optional[bool] = None
    for c in prog.classes:
        fn = c.methods.get("separation_vector")
        if fn is None or all(isinstance(x, (ast.Raise, ast.Expr)) for x in fn.body):
            continue
        ps = [p for p in param_names(fn) if p != "self"]
        subs = [b for b in ast.walk(fn) if isinstance(b, ast.BinOp) and isinstance(b.op, ast.Sub) and isinstance(b.left, ast.Subscript)
                and isinstance(b.right, ast.Subscript)]
        good = len(ps) == 2 and len(subs) >= 1 and all(norm(b.left.value) == ps[1] and norm(b.right.value) == ps[0] for b in subs)
        orient_ok = good if orient_ok is None else (orient_ok and good)
        rep.ob("R3.6-separation-orientation", good, Loc(c.file, fn.lineno, f"{c.name}.separation_vector"), subs[0] if subs else "separation",
               "separation_vector(reference, target) must be target - reference (separation = target minus active)")
    # handler side: separation_vector(positions[A], positions[B]) for (A, B) taken pairwise from the option
    pair_of: Dict[str, Tuple[int, int]] = {}
    for c in prog.classes:
        fn = c.methods.get("_get_separations")
        if fn is None:
            continue
        for comp in ast.walk(fn):
            if isinstance(comp, (ast.ListComp, ast.GeneratorExp)) and len(comp.generators) == 1 and isinstance(comp.generators[0].target, ast.Tuple) \
                    and isinstance(comp.elt, ast.Call) and norm(comp.elt.func).endswith("separation_vector") and len(comp.elt.args) == 2:
                tnames = [norm(t) for t in comp.generators[0].target.elts]
                a = [norm(x.slice) if isinstance(x, ast.Subscript) else None for x in comp.elt.args]
                if len(tnames) == 2 and a[0] in tnames and a[1] in tnames and a[0] != a[1]:
                    pair_of[c.name] = (tnames.index(a[0]), tnames.index(a[1]))      # (position of the tail, position of the head) in a pair
    n = 0
    for cfg in load_all(prog):
        for o in cfg.walk():
            sv = o.get("separations")
            pot = o.get("potential")
            if not isinstance(sv, list) or not isinstance(pot, Obj):
                continue
            loc = Loc(cfg.file, 0, f"[{o.section}]")
            hc = next((k for k in pair_of if prog.is_subclass(o.cls, k)), None)
            if hc is None or pot.cls.name not in order or not orient_ok or not all(isinstance(x, int) for x in sv):
                rep.ob("R3.6-separations-match-tuple-order", None, loc, f"separations = {sv}", "handler / potential conventions not derived")
                continue
            tail, heads = order[pot.cls.name]
            tp, hp = pair_of[hc]
            pairs = [sv[i:i + 2] for i in range(0, len(sv), 2)]
            ok = len(pairs) == len(heads) and all(len(pr) == 2 and pr[tp] == tail and pr[hp] == heads[m] for m, pr in enumerate(pairs))
            n += 1
            rep.ob("R3.6-separations-match-tuple-order", ok, loc, f"separations = {', '.join(map(str, sv))}",
                   f"{pot.cls.name} returns the derivative of the shared tail unit at tuple position {tail} and of the head of separation m at "
                   f"positions {heads}; the handler indexes the tuple with the in-state index of the unit, so the option must be "
                   f"{', '.join(f'{tail}, {h}' if (tp, hp) == (0, 1) else f'{h}, {tail}' for h in heads)}: otherwise the rate used for an "
                   f"active unit is the derivative with respect to another unit")
    rep.unit("separations_options", n)


def check_c_parity(src: Source, rep: Report) -> None:
    """
    R3.7: the C x-derivative is odd in the x component of the separation and even in the two others (mirror symmetry of the
    lattice sum) -- parity abstract interpretation (jfsa/parity.py).
    """
    from ..parity import parity_of
    for rel in (MIC, IPC):
        unit = CUnit(src, rel)
        ok, got, notes, nsym = parity_of(unit, "derivative", ("O", "E", "E"))
        params = unit.params("derivative")[-3:]
        rep.ob("R3.7-c-derivative-parity", ok, Loc(rel, unit.functions["derivative"].line, "derivative"),
               f"derivative: parity under the reflections of ({', '.join(params)}) is {got}; {nsym} symmetric lattice sum(s)",
               f"the derivative along x must be odd under {params[0]} -> -{params[0]} and even under the reflections of the other two components; "
               + "; ".join(notes))
    rep.expect_min("R3.7-c-derivative-parity", 2)


def check_velocity_analysis(prog: Program, rep: Report) -> None:
    c = prog.class_named("StandardVelocityPotential")
    fn = c.methods.get("_analyse_velocity")
    d = c.methods.get("derivative")
    loc = Loc(c.file, fn.lineno if fn else 0, "StandardVelocityPotential._analyse_velocity")
    ok = False
    if fn is not None:
        v = param_names(fn)[0]
        rets = [r for r in ast.walk(fn) if isinstance(r, ast.Return)]
        RV = Resolver(fn)
        ok = len(rets) == 1 and isinstance(rets[0].value, ast.Tuple) and len(rets[0].value.elts) == 2 \
            and RV.text(rets[0].value.elts[1]) == f"{v}[{RV.text(rets[0].value.elts[0])}]"
    rep.ob("R3.5-velocity-analysis", ok, loc, "returns (axis, velocity[axis])", "the speed must be the component of the velocity along the axis found")
    ok = False
    if d is not None:
        R = Resolver(d, unpack_calls=True)
        # the analysed velocity may be unpacked, kept as a pair and indexed, or be a record read by field (normalised to an index): after
        # resolving locals the axis argument is component 0 and the factor component 1 of the very same analysis call
        calls = [c_ for c_ in ast.walk(d) if isinstance(c_, ast.Call) and norm(c_.func).endswith("_analyse_velocity")]
        if len(calls) == 1:
            ct = norm(calls[0])
            for r in ast.walk(d):
                if isinstance(r, ast.Return) and r.value is not None:
                    v = R.res(r.value)
                    if isinstance(v, ast.BinOp) and isinstance(v.op, ast.Mult):
                        for call, other in ((v.left, v.right), (v.right, v.left)):
                            if isinstance(call, ast.Call) and norm(call.func).endswith("standard_velocity_derivative") and call.args \
                                    and norm(call.args[0]) == f"{ct}[0]" and norm(other) == f"{ct}[1]":
                                ok = True
    rep.ob("R3.5-derivative-is-space-derivative-times-speed", ok, Loc(c.file, d.lineno if d else 0, "StandardVelocityPotential.derivative"),
           "standard_velocity_derivative(axis, ...) * speed", "the rate must be the space derivative along the axis of motion times the speed")


def check_dimensions(prog: Program, src: Source, rep: Report) -> None:
    """R3.2 units-of-measure inference over the Python potentials and the C potentials."""
    from ..dims import Solver, show_dim
    from ..dims_front import PyDims
    solver = Solver()
    pd = PyDims(prog, solver, src)
    pots = [c for c in prog.subclasses("Potential") if prog.is_concrete(c) and c.file.startswith("jellyfysh/potential/")
            and c.name != "CellBoundingPotential"]
    determined = {}
    for c in sorted(pots, key=lambda x: x.name):
        inst = pd.new_instance(c, c.name, {})
        for m in ("derivative", "displacement", "standard_velocity_derivative", "standard_velocity_displacement", "potential", "_potential",
                  "__setstate__"):
            pd.method(inst, m)
        pre = inst.attrs.get("_prefactor")
        if pre is not None and pre.t is not None:
            v = solver.term_value(pre.t)
            determined[c.name] = show_dim(v) if v is not None else None
    for rel, cd in sorted(pd.cunits.items()):
        for f in cd.unit.functions:
            if not f.startswith(("destroy", "estimated")):
                cd.function(f)
    n_ok = solver.n_constraints - len(solver.conflicts)
    for k in range(min(n_ok, solver.n_constraints)):
        pass
    # one obligation per constraint family: report conflicts individually, the consistent rest as a count
    seen = set()
    for cf in solver.conflicts:
        file, line, qual = cf.origin
        key = (file, qual, cf.text)
        if key in seen:
            continue
        seen.add(key)
        rep.ob("R3.2-dimension-consistent", False, Loc(file, line, qual), cf.text,
               f"dimensionally inconsistent: the two sides differ by {show_dim(cf.residual)} (L length, E energy, T time; p = configured "
               f"power) under the API contract separations = L, velocities = L/T, potential changes = E, derivative -> E/T, "
               f"standard_velocity_derivative -> E/L, displacement -> T, standard_velocity_displacement -> L")
    rep.ob("R3.2-dimension-consistent", True, Loc("jellyfysh/potential", 0, ""), f"{n_ok} dimension constraints consistent", "")
    rep.extra["dimension_constraints"] = solver.n_constraints
    rep.extra["inferred_prefactor_dimensions"] = determined
    n_det = sum(1 for v in determined.values() if v is not None)
    rep.ob("R3.2-prefactors-inferred", n_det >= 5, Loc("jellyfysh/potential", 0, ""), f"prefactor dimensions inferred: {determined}",
           "the inference no longer determines the dimensions of the potentials' prefactors (contract anchors lost)")
    if solver.n_constraints < 500:
        raise AnalysisError(f"dimension analysis generated only {solver.n_constraints} constraints (about 730 on the pinned tree)")


def analyse(src: Source) -> List[Report]:
    rep = Report(ID, src)
    rep.explain(
        "R3.1: abstract interpretation in the domain of homogeneity degrees (speed, charge_one, charge_two): for every concrete "
        "potential the value returned by derivative (resolved through the MRO, through attribute sub-potentials and through the "
        "cffi C functions, whose degree in their prefactor argument is computed from the clang AST) has degree exactly 1 in "
        "speed and in each charge parameter; displacement has degree -1 in speed. R3.2: units-of-measure inference: every quantity "
        "of the Python potentials (per instance, so that the two inverse-power parts of Lennard-Jones are typed with their own "
        "powers) and of the C potentials gets an unknown exponent vector over (L, E, T); expressions generate linear constraints "
        "with coefficients in Q(p), p the configured power; the API contract anchors them; an incremental elimination reports "
        "the first constraint that cannot hold. R3.3: the axis permutation table is the "
        "cyclic permutation starting with the direction and every call of a C routine passes permutation_3d(separation, "
        "direction). R3.4: the tuple returned by a multi-body derivative sums to the zero linear form over its local atoms and "
        "all components are scaled by the same speed. R3.5: velocity analysis returns (axis, velocity[axis]) and the rate is "
        "space derivative x speed. Not decided: equality with the derivative of the energy, Ewald-sum properties.")
    prog = Program(src)
    check_degrees(prog, src, rep)
    check_dimensions(prog, src, rep)
    check_permutation(prog, rep)
    check_zero_sum(prog, rep)
    check_separation_order(prog, rep)
    check_c_parity(src, rep)
    from ..memo import check_memo_keys
    check_memo_keys(prog, rep, "R3.8-memo-key", ("jellyfysh/potential/",))
    rep.expect_min("R3.6-separations-match-tuple-order", 5)
    rep.expect_min("R3.6-component-degrees", 1)
    check_velocity_analysis(prog, rep)
    return [rep]


P = "jellyfysh/potential/"
MUTANTS = [
    Edit("inverse power: charge_two dropped", P + "inverse_power_potential.py", "* self._prefactor * charge_one * charge_two)", "* self._prefactor * charge_one)", "R3.1"),
    Edit("standard velocity: speed squared", P + "abstracts.py",
         "return self.standard_velocity_derivative(direction_of_motion, *args, **kwargs) * speed",
         "return self.standard_velocity_derivative(direction_of_motion, *args, **kwargs) * speed * speed", "R3"),
    Edit("standard velocity: displacement not divided by speed", P + "abstracts.py",
         "return self.standard_velocity_displacement(direction_of_motion, *args, **kwargs) / speed",
         "return self.standard_velocity_displacement(direction_of_motion, *args, **kwargs)", "R3.1"),
    Edit("merged image: charge_one squared", P + "merged_image_coulomb_potential/merged_image_coulomb_potential.py",
         "self._prefactor * charge_one * charge_two * _lib_derivative(", "self._prefactor * charge_one * charge_one * _lib_derivative(", "R3.1"),
    Edit("bounding C derivative: prefactor added instead of multiplied", IPC,
         "return prefactor_product * sx / pow(", "return prefactor_product + sx / pow(", "R3.1"),
    Edit("permutation rows swapped", "jellyfysh/base/vectors.py", "itemgetter(*[1, 2, 0]), itemgetter(*[2, 0, 1])", "itemgetter(*[2, 0, 1]), itemgetter(*[1, 2, 0])", "R3.3"),
    Edit("permutation not cyclic", "jellyfysh/base/vectors.py", "itemgetter(*[1, 2, 0])", "itemgetter(*[1, 0, 2])", "R3.3"),
    Edit("bending: middle component sign", P + "bending_potential.py",
         "- d_potential_by_d_separation_one - d_potential_by_d_separation_two,", "- d_potential_by_d_separation_one + d_potential_by_d_separation_two,", "R3.4"),
    Edit("coulomb bounding: unpermuted separation", P + "inverse_power_coulomb_bounding_potential/inverse_power_coulomb_bounding_potential.py",
         "return _lib_derivative(self._prefactor * charge_one * charge_two, *permutation_3d(separation, direction))",
         "return _lib_derivative(self._prefactor * charge_one * charge_two, *separation)", "R3.3"),
    Edit("hard sphere: time not scaled by the speed", P + "hard_sphere_potential.py",
         "return ((velocity_dot_separation - sqrt(square_root_term)) / velocity_squared", "return ((velocity_dot_separation - sqrt(square_root_term))", "R3.1"),
    Edit("velocity analysis returns the first component", P + "abstracts.py",
         "return direction_of_motions[0], velocity[direction_of_motions[0]]", "return direction_of_motions[0], velocity[0]", "R3.5"),
]
MIP = P + "merged_image_coulomb_potential/merged_image_coulomb_potential"
MUTANTS += [
    Edit("inverse power: exponent power + 1", P + "inverse_power_potential.py", "self._power_plus_two = self._power + 2", "self._power_plus_two = self._power + 1", "R3.2"),
    Edit("inverse power: norm instead of norm_sq in the potential", P + "inverse_power_potential.py",
         "return charge_product * self._prefactor / vectors.norm_sq(separation) ** self._power_over_two",
         "return charge_product * self._prefactor / vectors.norm(separation) ** self._power_over_two", "R3.2"),
    Edit("displaced even power: derivative exponent", P + "displaced_even_power_potential.py",
         "(norm_of_separation - self._equilibrium_separation) ** (self._power - 1)", "(norm_of_separation - self._equilibrium_separation) ** self._power", "R3.2"),
    Edit("lennard jones: sigma ** 6 for the twelve-power term", P + "lennard_jones_potential.py",
         "characteristic_length ** 12)", "characteristic_length ** 6)", "R3.2"),
    Edit("C bound: exponent 1 instead of 3/2", IPC, "pow(sx * sx + sy * sy + sz * sz, 3.0 / 2.0)", "pow(sx * sx + sy * sy + sz * sz, 1.0)", "R3.2"),
    Edit("C bound displacement: adds a potential to a length", IPC, "displacement += system_length_over_two + sx;", "displacement += potential_half_length + sx;", "R3.2"),
    Edit("C merged image: copy rebuilds with alpha / L for alpha", MIP + ".c",
         r"(struct MergedImageCoulombPotential \*copy_merged_image_coulomb_potential\(struct MergedImageCoulombPotential \*potential\) \{\n)",
         r"\1    if (potential->system_length > 0.0) return construct_merged_image_coulomb_potential(potential->fourier_cutoff, "
         r"potential->position_cutoff, potential->alpha_over_length, potential->system_length);\n", "R3.2", regex=True),
    Edit("hard sphere: contact time without the square root", P + "hard_sphere_potential.py",
         "return ((velocity_dot_separation - sqrt(square_root_term)) / velocity_squared", "return ((velocity_dot_separation - square_root_term) / velocity_squared", "R3.2"),
]
MUTANTS += [
    Edit("Fourier sine from the cosine (loses the sign)", MIC, "double delta_sin_x = sin(potential->two_pi_over_length * sx);",
         "double delta_sin_x = sqrt(1.0 - delta_cos_x * delta_cos_x);", "R3.7"),
    Edit("Fourier term with the cosine of x", MIC, "potential->fourier_array[i][j][k] * sin_x * cos_y * cos_z;",
         "potential->fourier_array[i][j][k] * cos_x * cos_y * cos_z;", "R3.7"),
    Edit("real-space sum over a half range", MIC, "for (i = -cutoff_x; i < cutoff_x + 1; i++) {", "for (i = 0; i < cutoff_x + 1; i++) {", "R3.7"),
    Edit("real-space term with |x|", MIC, "derivative += vector_x * (potential->two_alpha_over_length_root_pi", "derivative += fabs(vector_x) * (potential->two_alpha_over_length_root_pi", "R3.7"),
    Edit("bounding potential: y component in the numerator", IPC, "return prefactor_product * sx / pow(", "return prefactor_product * sy / pow(", "R3.7"),
    Edit("water bending: hydrogens swapped in the separations option", "jellyfysh/config_files/2018_JCP_149_064113/water/single_molecule.ini",
         "separations = 1, 0, 1, 2", "separations = 1, 2, 1, 0", "R3.6"),
    Edit("bending: tuple order reversed against the separations", P + "bending_potential.py",
         "return (d_potential_by_d_separation_one, - d_potential_by_d_separation_one - d_potential_by_d_separation_two,\n                d_potential_by_d_separation_two)",
         "return (d_potential_by_d_separation_two, - d_potential_by_d_separation_one - d_potential_by_d_separation_two,\n                d_potential_by_d_separation_one)", "R3.6"),
]
TWINS = [
    Edit("C: symmetric loop with <=", MIC, "for (i = -cutoff_x; i < cutoff_x + 1; i++) {", "for (i = -cutoff_x; i <= cutoff_x; i++) {"),
    Edit("C: Fourier term reordered", MIC, "potential->fourier_array[i][j][k] * sin_x * cos_y * cos_z;", "cos_z * cos_y * sin_x * potential->fourier_array[i][j][k];"),
    Edit("inverse power: exponent through a local", P + "inverse_power_potential.py",
         "        return (self._power * separation[direction] / vectors.norm(separation) ** self._power_plus_two",
         "        exponent = self._power_plus_two\n        return (self._power * separation[direction] / vectors.norm(separation) ** exponent"),
    Edit("inverse power: factors reordered", P + "inverse_power_potential.py", "* self._prefactor * charge_one * charge_two)", "* charge_two * charge_one * self._prefactor)"),
    Edit("bending: middle component as negated sum", P + "bending_potential.py",
         "- d_potential_by_d_separation_one - d_potential_by_d_separation_two,", "-(d_potential_by_d_separation_one + d_potential_by_d_separation_two),"),
]
