"""
C04 -- thinning is sound: acceptance is the exact ratio, an unconfirmed event changes no velocity.

Decided: R4.1 normal form of every confirmation test: one fresh uniform draw on [0, B) compared strictly with R, where the
reaching definitions of R are the true potential's derivative (possibly summed / clipped at 0 / component of a tuple) and
those of B the bounding object (bounding potential derivative, stored piecewise-constant rate, cell bound x charge factor),
never mixed; both evaluated at the same separation and velocity; R4.2 every velocity-changing call of a thinning handler is
control-dependent on the accepting edge (rejecting paths return the state untouched); R4.3 a non-positive true rate never
accepts (lower end of the draw is the literal 0).  Not decided: domination B >= R over the continuous domain, the constant
1.5837, positivity of the bound.
"""
import ast
from typing import Dict, List, Optional, Set, Tuple

from ..core import AnalysisError, Loc, Report, Source, norm
from ..handlers import FnRef, HandlerFacts, closure, concrete_handlers, implementations, stores
from ..pyfront import ClassInfo, Program, const_value, body_without_docstring, param_names, self_attr
from ..resolve import Resolver
from ..selftest import Edit

ID = "C04"
TRUE, BOUND = "true-potential", "bounding"


def _uniform_call(e: ast.AST) -> Optional[Tuple[str, Optional[ast.AST], ast.AST]]:
    """('uniform', low, high) for random.uniform(low, high); ('random*', None, B) for random.random() * B."""
    if isinstance(e, ast.Call) and norm(e.func) in ("random.uniform", "uniform") and len(e.args) == 2:
        return "uniform", e.args[0], e.args[1]
    if isinstance(e, ast.BinOp) and isinstance(e.op, ast.Mult):
        for a, b in ((e.left, e.right), (e.right, e.left)):
            if isinstance(a, ast.Call) and norm(a.func) in ("random.random", "random") and not a.args:
                return "random*", None, b
    return None


class Origins:
    """Backward slice of a value inside a handler class: does it come from the true potential or from the bounding object?"""

    def __init__(self, prog: Program, cls: ClassInfo, proposal_attrs: Set[str]) -> None:
        self.prog, self.cls = prog, cls
        self.methods = prog.all_methods(cls)
        self.attr_cache: Dict[str, Set[str]] = {}
        # attributes stored while the candidate event time is computed: the rate the event was proposed with
        self.proposal_attrs = proposal_attrs

    def of_expr(self, e: ast.AST, fn: ast.FunctionDef, depth: int = 0, seen: Optional[Set[str]] = None) -> Set[str]:
        seen = seen or set()
        out: Set[str] = set()
        if depth > 6:
            return out
        # names bound by a comprehension inside e refer to that comprehension's iterable only (the same name may be the variable of
        # several comprehensions of the function)
        bound_iter: Dict[int, ast.AST] = {}
        for c in ast.walk(e):
            if isinstance(c, (ast.ListComp, ast.GeneratorExp, ast.SetComp, ast.DictComp)):
                for g in c.generators:
                    names_ = {x.id for x in ast.walk(g.target) if isinstance(x, ast.Name)}
                    for x in ast.walk(c):
                        if isinstance(x, ast.Name) and x.id in names_ and isinstance(x.ctx, ast.Load):
                            bound_iter[id(x)] = g.iter
        for n in ast.walk(e):
            if isinstance(n, ast.Name) and id(n) in bound_iter:
                if n.id not in seen:
                    out |= self.of_expr(bound_iter[id(n)], fn, depth + 1, seen | {n.id})
                continue
            if isinstance(n, ast.Call) and isinstance(n.func, ast.Attribute):
                recv = norm(n.func.value)
                if n.func.attr == "derivative" and recv == "self._potential":
                    out.add(TRUE)
                elif n.func.attr == "derivative" and "bounding_potential" in recv:
                    out.add(BOUND)
                elif isinstance(n.func.value, ast.Name) and n.func.value.id == "self" and n.func.attr in self.methods:
                    owner, m = self.methods[n.func.attr]
                    for r in [x for x in ast.walk(m) if isinstance(x, ast.Return) and x.value is not None]:
                        out |= self.of_expr(r.value, m, depth + 1, seen)
            if isinstance(n, ast.Subscript) and self_attr(n.value) and "bound" in (self_attr(n.value) or ""):
                out.add(BOUND)
            if isinstance(n, ast.Name) and isinstance(n.ctx, ast.Load) and n.id not in seen:
                seen2 = seen | {n.id}
                for a in ast.walk(fn):
                    if isinstance(a, ast.Assign) and any(isinstance(t, ast.Name) and t.id == n.id for t in a.targets):
                        out |= self.of_expr(a.value, fn, depth + 1, seen2)
                    if isinstance(a, ast.AugAssign) and isinstance(a.target, ast.Name) and a.target.id == n.id:
                        out |= self.of_expr(a.value, fn, depth + 1, seen2)
                    if isinstance(a, (ast.For, ast.comprehension)) and any(isinstance(t, ast.Name) and t.id == n.id for t in ast.walk(a.target)):
                        # a loop / comprehension variable takes the origins of what is iterated
                        out |= self.of_expr(a.iter, fn, depth + 1, seen2)
                    if isinstance(a, ast.Call) and isinstance(a.func, ast.Attribute) and a.func.attr in ("append", "extend", "insert", "add") \
                            and isinstance(a.func.value, ast.Name) and a.func.value.id == n.id:
                        # a local collection takes the origins of what is put into it
                        for arg_ in a.args:
                            out |= self.of_expr(arg_, fn, depth + 1, seen2)
                    if isinstance(a, ast.Assign) and isinstance(a.targets[0], ast.Tuple):
                        for i, t in enumerate(a.targets[0].elts):
                            if isinstance(t, ast.Name) and t.id == n.id:
                                out |= self.of_component(a.value, i, len(a.targets[0].elts), fn, depth + 1, seen2)
            if self_attr(n) and isinstance(n.ctx, ast.Load):
                out |= self.of_attr(self_attr(n), depth + 1)
        return out

    def of_component(self, value: ast.AST, i: int, n: int, fn: ast.FunctionDef, depth: int, seen: Set[str]) -> Set[str]:
        """origins of component i of an n-tuple value: position-aware through tuple displays and tuple-returning helpers"""
        if isinstance(value, ast.Tuple) and len(value.elts) == n:
            return self.of_expr(value.elts[i], fn, depth, seen)
        if isinstance(value, ast.Call) and isinstance(value.func, ast.Attribute) and isinstance(value.func.value, ast.Name) \
                and value.func.value.id == "self" and value.func.attr in self.methods:
            owner, m = self.methods[value.func.attr]
            rets = [x for x in ast.walk(m) if isinstance(x, ast.Return) and x.value is not None]
            if rets and all(isinstance(r.value, ast.Tuple) and len(r.value.elts) == n for r in rets):
                out: Set[str] = set()
                for r in rets:
                    out |= self.of_expr(r.value.elts[i], m, depth + 1, set())
                return out
        return self.of_expr(value, fn, depth, seen)

    def of_attr(self, attr: str, depth: int = 0) -> Set[str]:
        if attr in self.proposal_attrs:
            return {BOUND}
        if attr in self.attr_cache:
            return self.attr_cache[attr]
        self.attr_cache[attr] = set()
        out: Set[str] = set()
        if attr in ("_potential", "_bounding_potential", "_lifting", "_state", "_leaf_units", "_leaf_cnodes"):
            return out
        for name, (owner, m) in self.methods.items():
            for a in ast.walk(m):
                if isinstance(a, ast.Assign) and any(self_attr(t) == attr for t in a.targets):
                    out |= self.of_expr(a.value, m, depth + 1, set())
        self.attr_cache[attr] = out
        return out


class Site:
    def __init__(self, ref: FnRef, node: ast.If, kind: str, low: Optional[ast.AST], bexpr: ast.AST, rexpr: ast.AST, accept_is_body: bool,
                 strict_ok: bool) -> None:
        self.ref, self.node, self.kind, self.low, self.bexpr, self.rexpr = ref, node, kind, low, bexpr, rexpr
        self.accept_is_body, self.strict_ok = accept_is_body, strict_ok


def _site_of(ref: FnRef, n: ast.If, test: ast.AST, R: Resolver, out: List["Site"]) -> None:
        # a test bound to a local first (`rejected = rate <= draw; if rejected:` / `if not rejected:`) is the same test
        negated = False
        if isinstance(test, ast.UnaryOp) and isinstance(test.op, ast.Not):
            test, negated = test.operand, True
        if isinstance(test, ast.Name):
            test = R.res(test)
        if isinstance(test, ast.UnaryOp) and isinstance(test.op, ast.Not):
            test, negated = test.operand, not negated
        if not (isinstance(test, ast.Compare) and len(test.ops) == 1):
            return
        # the draw may have been bound to a local (`threshold = uniform(0, B)`): resolve single-assignment locals
        l, r, op = R.res(test.left), R.res(test.comparators[0]), test.ops[0]
        if negated:
            op = {ast.Lt: ast.GtE, ast.LtE: ast.Gt, ast.Gt: ast.LtE, ast.GtE: ast.Lt}.get(type(op), type(op))()
        ul, ur = _uniform_call(l), _uniform_call(r)
        if ul and not ur:
            # U*B op R : accept iff U*B < R
            kind, low, b = ul
            if isinstance(op, (ast.Lt, ast.LtE)):
                out.append(Site(ref, n, kind, low, b, r, True, isinstance(op, ast.Lt)))
            elif isinstance(op, (ast.Gt, ast.GtE)):
                out.append(Site(ref, n, kind, low, b, r, False, isinstance(op, ast.GtE)))  # U*B >= R : reject
        elif ur and not ul:
            kind, low, b = ur
            if isinstance(op, (ast.Gt, ast.GtE)):
                out.append(Site(ref, n, kind, low, b, l, True, isinstance(op, ast.Gt)))  # R > U*B : accept
            elif isinstance(op, (ast.Lt, ast.LtE)):
                out.append(Site(ref, n, kind, low, b, l, False, isinstance(op, ast.LtE)))  # R <= U*B : reject


def find_sites(ref: FnRef) -> List[Site]:
    out = []
    R = Resolver(ref.fn)
    for n in ast.walk(ref.fn):
        whole = n.test if isinstance(n, ast.If) else None
        if whole is None:
            continue
        # `if a and <accepting comparison>: ...` -- the body runs only when the draw accepts; `if a or <rejecting comparison>: leave`
        # -- what follows runs only when the draw accepts.  The other combinations give no guard and are not confirmation sites.
        if isinstance(whole, ast.BoolOp):
            cands = [(v, "and" if isinstance(whole.op, ast.And) else "or") for v in whole.values]
        else:
            cands = [(whole, "")]
        for test, mode in cands:
            before = len(out)
            _site_of(ref, n, test, R, out)
            if len(out) > before and ((mode == "and" and not out[-1].accept_is_body) or (mode == "or" and out[-1].accept_is_body)):
                out.pop()
    return out


def analyse(src: Source) -> List[Report]:
    rep = Report(ID, src)
    rep.explain(
        "R4.1: every `if` that compares a random.uniform / random.random()*B draw in the out-state closure of a thinning "
        "handler is normalised (accepting form `U*B < R`, rejecting form `R <= U*B`); the draw starts at the literal 0, the "
        "comparison is the strict one on the accepting side, R's backward slice reaches the true potential's derivative and "
        "not the bounding object, B's slice reaches the bounding object (bounding potential derivative, stored bound rate, "
        "cell bound) and not the true potential; where both derivatives are evaluated in one block they get the same velocity "
        "and separation expressions. R4.2: every call that changes a velocity in a thinning handler's out-state is inside the "
        "accepting branch or after a rejecting early return of a confirmation site (or inside a helper for which this holds); "
        "rejecting branches return without any unit-field write. R4.3: with the draw on [0, B) and the strict comparison a "
        "true rate <= 0 never accepts. Not decided: that the bound dominates the true rate, positivity of the bound.")
    prog = Program(src)
    n_sites = 0
    thinning_handlers = 0
    for h in concrete_handlers(prog):
        facts = HandlerFacts(prog, h)
        attrs = {self_attr(t) for c in prog.mro(h) for m in c.methods.values() for a in ast.walk(m) if isinstance(a, ast.Assign)
                 for t in a.targets if self_attr(t)}
        uses_bound = bool(attrs & {"_bounding_potential", "_bounding_event_rate"})
        if not uses_bound:
            continue
        thinning_handlers += 1
        proposal_attrs = set()
        for ref in facts.time_closure:
            for a in ast.walk(ref.fn):
                if isinstance(a, ast.Assign) and self_attr(a.targets[0]) and "rate" in (self_attr(a.targets[0]) or "") \
                        and not (isinstance(a.value, ast.Constant) and a.value.value is None):
                    proposal_attrs.add(self_attr(a.targets[0]))
        org = Origins(prog, h, proposal_attrs)
        sites: List[Site] = []
        for ref in facts.out_closure:
            sites.extend(find_sites(ref))
        loc_h = Loc(h.file, h.node.lineno, h.name)
        rep.ob("R4.1-has-confirmation", len(sites) >= 1, loc_h, f"{h.name}: {len(sites)} confirmation site(s)",
               "a handler that proposes events from a bounding potential / bound rate must confirm them against the true rate; no "
               "confirmation test with a uniform draw was found in its out-state")
        # the rates of the confirmation are evaluated at the configuration the event was proposed for: where the out-state routine
        # advances its in-state to the event time (`_time_slice_all_units_in_state`), every potential derivative is taken after that
        so = prog.resolve_method(h, "send_out_state")
        if so is not None:
            from ..normalize import canon as _canon, flat
            cf = _canon(prog, h, so[1])
            top = flat(body_without_docstring(cf))

            def _has(st_: ast.stmt, pred) -> bool:
                return any(pred(x) for x in ast.walk(st_))
            is_slice = lambda x: isinstance(x, ast.Call) and isinstance(x.func, ast.Attribute) and x.func.attr in ("_time_slice_all_units_in_state", "_time_slice_unit", "_time_slice_subtree_units")
            is_rate = lambda x: isinstance(x, ast.Call) and isinstance(x.func, ast.Attribute) and x.func.attr == "derivative" \
                and "potential" in norm(x.func.value)
            is_store = lambda x: isinstance(x, ast.Call) and isinstance(x.func, ast.Attribute) and x.func.attr == "_store_in_state"
            slice_at = [i_ for i_, st_ in enumerate(top) if _has(st_, is_slice)]
            rate_at = [i_ for i_, st_ in enumerate(top) if _has(st_, is_rate)]
            store_at = [i_ for i_, st_ in enumerate(top) if _has(st_, is_store) or
                        (isinstance(st_, ast.Assign) and any(self_attr(t_) == "_state" for t_ in st_.targets))]
            if store_at and rate_at:
                # a rate that is evaluated after the received in-state was stored reads that state: it must have been advanced first
                # (a rate evaluated before the store reads the units of send_event_time, which that method already advanced)
                s0, r0 = min(store_at), min(rate_at)
                ok_ = not (s0 < r0) or any(s0 <= t_ < r0 for t_ in slice_at)
                rep.ob("R4.6-rates-after-time-slice", ok_, Loc(so[0].file, top[r0].lineno, f"{h.name}.send_out_state"),
                       top[r0], "a potential derivative of the confirmation is evaluated on the freshly stored in-state before that state "
                       "was advanced to the event time: the acceptance ratio is taken at the configuration of the previous event")
        changers = {name for name, (owner, m) in prog.all_methods(h).items() if any(f == "velocity" for _, f, *_ in stores(m))}
        # transitive: methods calling changers
        grew = True
        while grew:
            grew = False
            for name, (owner, m) in prog.all_methods(h).items():
                if name in changers:
                    continue
                if any(isinstance(c, ast.Call) and isinstance(c.func, ast.Attribute) and isinstance(c.func.value, ast.Name)
                       and c.func.value.id == "self" and c.func.attr in changers for c in ast.walk(m)):
                    changers.add(name)
                    grew = True
        guarded_helpers: Set[str] = set()
        for s in sites:
            n_sites += 1
            loc = Loc(s.ref.file, s.node.lineno, f"{h.name}: {s.ref.qual}")
            low_ok = s.kind == "random*" or (isinstance(s.low, ast.Constant) and s.low.value == 0)
            rep.ob("R4.3-draw-from-zero", low_ok, loc, s.node.test,
                   "the confirmation draw must be uniform on [0, bounding rate): with another lower end a non-positive true rate "
                   "can be accepted or the ratio is wrong")
            rep.ob("R4.1-strict-acceptance", s.strict_ok, loc, s.node.test,
                   "acceptance must be `draw < true rate` (rejection `true rate <= draw`): the other strictness accepts with a zero rate")
            ro, bo = org.of_expr(s.rexpr, s.ref.fn), org.of_expr(s.bexpr, s.ref.fn)
            rep.ob("R4.1-true-rate-side", TRUE in ro and BOUND not in ro, loc, f"R = {norm(s.rexpr)} <- {sorted(ro)}",
                   f"the quantity compared with the draw must be the true potential's event rate; its definitions reach {sorted(ro) or 'neither potential'}")
            rep.ob("R4.1-bounding-rate-side", BOUND in bo and TRUE not in bo, loc, f"B = {norm(s.bexpr)} <- {sorted(bo)}",
                   f"the draw must be scaled by the bounding event rate the event was proposed with; its definitions reach {sorted(bo) or 'neither'}")
            # R4.2 for this site: nothing reachable over the rejecting edge changes a velocity
            reject_region: List[ast.stmt] = list(s.node.orelse) if s.accept_is_body else list(s.node.body)
            if not _ends(reject_region):
                reject_region = reject_region + _following(s.ref.fn, s.node)
            writes = [st for r in reject_region for st, *_ in stores(r)]
            calls = [c for r in reject_region for c in ast.walk(r) if isinstance(c, ast.Call) and isinstance(c.func, ast.Attribute)
                     and isinstance(c.func.value, ast.Name) and c.func.value.id == "self" and c.func.attr in changers]
            rep.ob("R4.2-reject-leaves-velocities", not writes and not calls, loc, f"rejecting branch of {norm(s.node.test)}",
                   "an unconfirmed event must leave all velocities unchanged (the rejecting edge must not reach a velocity change)")
        # R4.2 control dependence of velocity-changing calls in the functions that contain sites, and their callers
        site_fns = {id(s.ref.fn) for s in sites}
        for ref in facts.out_closure:
            if ref.fn.name in changers and not any(isinstance(c, ast.Call) and isinstance(c.func, ast.Attribute) and c.func.attr in changers
                                                   for c in ast.walk(ref.fn)) and id(ref.fn) not in site_fns:
                continue  # primitive changer (exchange / pass velocity): judged at its call sites
            if ref.fn.name in changers and id(ref.fn) not in site_fns and ref.fn.name not in [r.fn.name for r in facts.send_out_state]:
                # helper that calls changers but has no site itself: must only be called under a site
                pass
            for c in ast.walk(ref.fn):
                if not (isinstance(c, ast.Call) and isinstance(c.func, ast.Attribute) and isinstance(c.func.value, ast.Name)
                        and c.func.value.id == "self" and c.func.attr in changers):
                    continue
                callee_guarded = any(s.ref.orig is prog.all_methods(h)[c.func.attr][1] for s in sites) if c.func.attr in prog.all_methods(h) else False
                guarded = callee_guarded or _under_accept(ref.fn, c, [s for s in sites if s.ref.fn is ref.fn])
                if ref.fn.name in [r.fn.name for r in facts.send_out_state] or id(ref.fn) in site_fns:
                    rep.ob("R4.2-velocity-change-needs-acceptance", guarded, Loc(ref.file, c.lineno, f"{h.name}: {ref.qual}"), c,
                           "a velocity-changing step of a thinning handler is reachable without passing the accepting edge of a "
                           "confirmation test: an unconfirmed (or unconditioned) event changes velocities")
        # R4.1d the true rate of a factor sums the derivative of every pair: the accumulation is unconditional in its loop
        for ref in facts.out_closure:
            for loop in [n for n in ast.walk(ref.fn) if isinstance(n, ast.For)]:
                tnames = {a.targets[0].id for a in loop.body if isinstance(a, ast.Assign) and isinstance(a.targets[0], ast.Name)
                          and isinstance(a.value, ast.Call) and norm(a.value.func) == "self._potential.derivative"}
                accs = [a for a in ast.walk(loop) if isinstance(a, ast.AugAssign) and isinstance(a.op, ast.Add) and isinstance(a.target, ast.Name)
                        and (norm(a.value) in tnames or (isinstance(a.value, ast.Call) and norm(a.value.func) == "self._potential.derivative"))]
                for acc in accs:
                    top = any(x is acc for x in loop.body) or any(isinstance(st, ast.For) and any(x is acc for x in st.body) for st in loop.body)
                    inner = loop if any(x is acc for x in loop.body) else next((st for st in loop.body if isinstance(st, ast.For) and any(x is acc for x in st.body)), loop)
                    idx = [k for k, x in enumerate(inner.body) if x is acc]
                    skips = [x for st in inner.body[:idx[0] if idx else 0] for x in ast.walk(st) if isinstance(x, (ast.Continue, ast.Break))]
                    rep.ob("R4.1-true-rate-sums-all-pairs", top and not skips, Loc(ref.file, acc.lineno, f"{h.name}: {ref.qual}"), acc,
                           "the true event rate of a factor is the sum of the pair derivatives over all targets; here the accumulation is "
                           "conditional or can be skipped (continue / break before it): the confirmation probability is then not "
                           "true rate / bounding rate")
        # R4.5 the rate an event is proposed with is refreshed on every path of the proposal
        if proposal_attrs:
            from ..flow import FlowWalker

            def events(node, ctx, _attrs=proposal_attrs):
                if isinstance(node, ast.Assign):
                    return [("SET", self_attr(t)) for t in node.targets if self_attr(t) in _attrs]
                return []

            def transfer(state, ev, ctx):
                return frozenset(set(state) | {ev[1]})

            def inline(call, ctx, _h=h):
                f = call.func
                if isinstance(f, ast.Attribute) and isinstance(f.value, ast.Name) and f.value.id == "self":
                    return implementations(prog, _h, f.attr)
                return []
            for ref in facts.send_event_time:
                w = FlowWalker(events, transfer, inline)
                w.run(ref, frozenset())
                for st, node, kind in w.exits:
                    if kind == "raise":
                        continue
                    missing = sorted(proposal_attrs - set(st))
                    rep.ob("R4.5-proposal-rate-refreshed", not missing, Loc(ref.file, getattr(node, "lineno", ref.fn.lineno), f"{h.name}: {ref.qual}"),
                           f"{h.name}: every path of send_event_time sets {sorted(proposal_attrs)}",
                           f"on some path the candidate time is returned without (re)setting {missing}: the confirmation then uses the "
                           f"rate left over from an earlier event of this handler")
        # helpers that evaluate the true rate at a separation they receive as a parameter
        sep_helpers: Dict[str, int] = {}
        for name, (owner, m) in prog.all_methods(h).items():
            ps = param_names(m)
            for c in ast.walk(m):
                if isinstance(c, ast.Call) and norm(c.func) == "self._potential.derivative" and len(c.args) >= 2 \
                        and isinstance(c.args[1], ast.Name) and c.args[1].id in ps:
                    sep_helpers[name] = ps.index(c.args[1].id)
        for ref in facts.out_closure:
            bcalls = [c for c in ast.walk(ref.fn) if isinstance(c, ast.Call) and isinstance(c.func, ast.Attribute) and c.func.attr == "derivative"
                      and "bounding_potential" in norm(c.func.value) and len(c.args) >= 2]
            hcalls = [c for c in ast.walk(ref.fn) if isinstance(c, ast.Call) and isinstance(c.func, ast.Attribute) and isinstance(c.func.value, ast.Name)
                      and c.func.value.id == "self" and c.func.attr in sep_helpers and len(c.args) > sep_helpers[c.func.attr]]
            for b in bcalls:
                for hc in hcalls:
                    sep_b, sep_t = norm(b.args[1]), norm(hc.args[sep_helpers[hc.func.attr]])
                    if "cell" in sep_b:
                        continue
                    rep.ob("R4.1-same-point", sep_b == sep_t, Loc(ref.file, b.lineno, f"{h.name}: {ref.qual}"),
                           f"bound({sep_b}) vs true-rate helper {hc.func.attr}({sep_t})",
                           "true and bounding rate must be evaluated for the same separation")
        # R4.1c same arguments for the two derivatives evaluated together
        for ref in facts.out_closure:
            for blk_owner in ast.walk(ref.fn):
                body = getattr(blk_owner, "body", None)
                if not isinstance(body, list):
                    continue
                tcalls = [c for st in body if not isinstance(st, (ast.For, ast.While, ast.If)) for c in ast.walk(st)
                          if isinstance(c, ast.Call) and norm(c.func) == "self._potential.derivative"]
                bcalls = [c for st in body if not isinstance(st, (ast.For, ast.While, ast.If)) for c in ast.walk(st)
                          if isinstance(c, ast.Call) and isinstance(c.func, ast.Attribute) and c.func.attr == "derivative"
                          and "bounding_potential" in norm(c.func.value)]
                if tcalls and bcalls and len(tcalls[0].args) >= 2 and len(bcalls[0].args) >= 2:
                    t, b = tcalls[0], bcalls[0]
                    same_v = norm(t.args[0]) == norm(b.args[0])
                    sep_t, sep_b = norm(t.args[1]), norm(b.args[1])
                    cellish = "cell" in sep_b
                    rep.ob("R4.1-same-point", same_v and (sep_t == sep_b or cellish), Loc(ref.file, t.lineno, f"{h.name}: {ref.qual}"),
                           f"true({norm(t.args[0])}, {sep_t}) vs bound({norm(b.args[0])}, {sep_b})",
                           "true and bounding rate must be evaluated for the same velocity and the same separation")
    # R4.4 shipped configurations keep the claimed ratio between the 1/r bound and the merged-image Coulomb potential
    from ..inifront import load_all, Obj
    bcls = prog.class_named("InversePowerCoulombBoundingPotential")
    tcls = prog.class_named("MergedImageCoulombPotential")

    def default_of(ci, pname):
        r = prog.resolve_method(ci, "__init__")
        if r:
            a = r[1].args
            pos = a.posonlyargs + a.args
            defs = [None] * (len(pos) - len(a.defaults)) + list(a.defaults)
            for p_, d_ in zip(pos, defs):
                v_ = const_value(prog, r[0], d_) if p_.arg == pname else None
                if isinstance(v_, (int, float)) and not isinstance(v_, bool):
                    return float(v_)
        return None
    bdef, tdef = default_of(bcls, "prefactor"), default_of(tcls, "prefactor")
    if bdef is None or tdef is None:
        raise AnalysisError("default prefactors of the Coulomb bound / merged-image potential not found")
    claimed = bdef / tdef
    n_pairs = 0
    for cfg in load_all(prog):
        for o in cfg.walk():
            pot, bnd = o.get("potential"), o.get("bounding_potential")
            if isinstance(pot, Obj) and isinstance(bnd, Obj) and prog.is_subclass(pot.cls, tcls.name) and prog.is_subclass(bnd.cls, bcls.name):
                n_pairs += 1
                k, b = pot.get("prefactor"), bnd.get("prefactor")
                ok = isinstance(k, float) and isinstance(b, float) and k != 0 and abs(b / k) >= claimed * (1 - 1e-12)
                # the claimed ratio holds for the converged lattice sum: a configuration that truncates the Ewald sums of the true
                # potential below the defaults the constant was certified for changes the true rate, not the bound
                for knob in ("fourier_cutoff", "position_cutoff"):
                    dflt, val_ = default_of(tcls, knob), pot.get(knob)
                    if dflt is not None and isinstance(val_, (int, float)) and not isinstance(val_, bool):
                        rep.ob("R4.4-true-potential-converged", val_ >= dflt, Loc(cfg.file, 0, f"[{pot.section}]"), f"{knob} = {val_} (default {dflt})",
                               f"`{knob}` of the true periodic Coulomb potential is lowered below its default while the bounding prefactor "
                               f"stays at the ratio certified for the converged sum: the true rate can exceed the bound near contact")
                rep.ob("R4.4-configured-bound-ratio", ok, Loc(cfg.file, 0, f"[{o.section}]"),
                       f"bound prefactor {b} / true prefactor {k} = {b / k if k else None} >= {claimed}",
                       f"the scaled nearest-image 1/r potential bounds the periodic Coulomb potential only if its prefactor is at least "
                       f"{claimed} times the true prefactor (the ratio the code itself claims through its defaults); this section uses "
                       f"{b / k if k else None}")
    rep.unit("configured_coulomb_bound_pairs", n_pairs)
    # the estimators' grids reach the upper faces of the cell (otherwise the bound over the cell is not a bound)
    from ..estimator_rules import check_estimator_grids
    if not check_estimator_grids(src, rep):
        rep.ob("R4.7-grid-reaches-upper-face", None, Loc("jellyfysh/estimator/inner_point_estimator.py", 0, "estimators"),
               "no grid of the form index / n with the index from range(..) found", "grid construction not recognised: undecided")
    rep.expect_min("R4.4-configured-bound-ratio", 10)
    # a bounding rate that is not dimensionally consistent (e.g. a squared length clamped at a pure number) cannot dominate the
    # true rate at every length scale: units-of-measure inference over the potentials (rule set shared with C03)
    from .c03 import check_dimensions
    check_dimensions(prog, src, rep)
    from ..handler_dims import check_handler_dimensions
    check_handler_dimensions(prog, src, rep, "R4.6-handler-dimensions", None)
    rep.unit("thinning_handlers", thinning_handlers)
    rep.unit("confirmation_sites", n_sites)
    rep.expect_min("R4.1-has-confirmation", 8)
    rep.expect_min("R4.1-true-rate-side", 7)
    rep.expect_min("R4.1-bounding-rate-side", 7)
    rep.expect_min("R4.2-velocity-change-needs-acceptance", 7)
    return [rep]


def _ends(stmts: List[ast.stmt]) -> bool:
    return bool(stmts) and isinstance(stmts[-1], (ast.Return, ast.Raise))


def _following(fn: ast.FunctionDef, node: ast.stmt) -> List[ast.stmt]:
    """statements that can run after `node` completes normally (enclosing loops are included whole)"""
    out: List[ast.stmt] = []
    cur: ast.AST = node
    while cur is not fn:
        parent = None
        for owner in ast.walk(fn):
            for fld in ("body", "orelse", "finalbody"):
                blk = getattr(owner, fld, None)
                if isinstance(blk, list) and any(x is cur for x in blk):
                    i = [k for k, x in enumerate(blk) if x is cur][0]
                    out.extend(blk[i + 1:])
                    parent = owner
            if parent is None and isinstance(owner, ast.Try) and any(x is cur for h in owner.handlers for x in h.body):
                parent = owner
            if parent is not None:
                break
        if parent is None:
            break
        if isinstance(parent, (ast.For, ast.While)):
            out.append(parent)
        cur = parent
    return out


def _under_accept(fn: ast.FunctionDef, call: ast.Call, sites: List[Site]) -> bool:
    for s in sites:
        accept, reject = (s.node.body, s.node.orelse) if s.accept_is_body else (s.node.orelse, s.node.body)
        if any(x is call for st in accept for x in ast.walk(st)):
            return True
        # the rejecting branch leaves the function: everything after the test is the accepting region
        if _ends(reject) and any(x is call for st in _following(fn, s.node) for x in ast.walk(st)):
            return True
    return False


EH = "jellyfysh/event_handler/"
EB = EH + "abstracts/event_handler_with_bounding_potential.py"
MUTANTS = [
    Edit("acceptance test reversed", EB, "if random.uniform(0, self._bounding_event_rate) < real_derivative:",
         "if random.uniform(0, self._bounding_event_rate) > real_derivative:", "R4"),
    Edit("draw on [0, 1)", EB, "if random.uniform(0, self._bounding_event_rate) < real_derivative:",
         "if random.uniform(0, 1.0) < real_derivative:", "R4.1"),
    Edit("true and bounding rate swapped", EB, "if random.uniform(0, self._bounding_event_rate) < real_derivative:",
         "if random.uniform(0, real_derivative) < self._bounding_event_rate:", "R4.1"),
    Edit("exchange outside the confirmation", EB,
         "            if random.uniform(0, self._bounding_event_rate) < real_derivative:\n                self._exchange_velocity(",
         "            if random.uniform(0, self._bounding_event_rate) < real_derivative:\n                pass\n            self._exchange_velocity(", "R4.2"),
    Edit("summed bounding: true rate from the bounding potential", EH + "two_composite_object_summed_bounding_potential_event_handler.py",
         "            pairwise_derivative = self._potential.derivative(", "            pairwise_derivative = self._bounding_potential.derivative(", "R4.1"),
    Edit("summed bounding: rejection does not return", EH + "two_composite_object_summed_bounding_potential_event_handler.py",
         "        if event_rate <= random.uniform(0.0, bounding_event_rate):\n            return self._state\n",
         "        if event_rate <= random.uniform(0.0, bounding_event_rate):\n            pass\n", "R4.2"),
    Edit("cell veto: draw shifted", EH + "composite_object_cell_veto_event_handler.py",
         "if event_rate <= random.uniform(0.0, self._bounding_event_rate):", "if event_rate <= random.uniform(-1.0, self._bounding_event_rate):", "R4.3"),
    Edit("piecewise constant: strictness", EH + "two_leaf_unit_event_handler_with_piecewise_constant_bounding_potential.py",
         "if random.uniform(0, self._bounding_event_rate) < real_derivative:", "if random.uniform(0, self._bounding_event_rate) <= real_derivative:", "R4.1"),
    Edit("bounding handler: rates at different separations", EH + "two_leaf_unit_bounding_potential_event_handler.py",
         "        self._bounding_event_rate = self._bounding_potential.derivative(\n            self._active_leaf_unit.velocity, separation,",
         "        self._bounding_event_rate = self._bounding_potential.derivative(\n            self._active_leaf_unit.velocity, [2 * s for s in separation],", "R4.1"),
    Edit("root mode summed: no confirmation", EH + "root_unit_active_two_composite_object_summed_bounding_potential_event_handler.py",
         "            if random.uniform(0, bounding_event_rate) < factor_derivative:\n", "            if True:\n", "R4"),
]
MUTANTS.append(Edit("summed bounding: downhill pairs skipped before the true derivative", EH + "two_composite_object_summed_bounding_potential_event_handler.py",
                    "            pairwise_derivative = self._potential.derivative(",
                    "            if bounding_event_rate <= 0.0:\n                continue\n            pairwise_derivative = self._potential.derivative(", "R4.1"))
MUTANTS.append(Edit("water config: bound prefactor too small", "jellyfysh/config_files/2018_JCP_149_064113/water/coulomb_power_bounded_lj_inverted.ini",
                    "prefactor = 531.2", "prefactor = 513.2", "R4.4"))
MUTANTS.append(Edit("piecewise constant: stale rate kept beyond the interval", EH + "abstracts/event_handler_with_bounding_potential.py",
                    "        else:\n            self._bounding_event_rate = None\n            return self._max_displacement",
                    "        else:\n            return self._max_displacement", "R4.5"))
MUTANTS.append(Edit("confirmation compares a rate with a derivative per length", EB,
                    "if random.uniform(0, self._bounding_event_rate) < real_derivative:",
                    "if random.uniform(0, self._bounding_event_rate) < real_derivative * self._active_leaf_unit.velocity[0]:", "R4.6"))
TWINS = [
    Edit("random() * B form", EB, "if random.uniform(0, self._bounding_event_rate) < real_derivative:",
         "if random.random() * self._bounding_event_rate < real_derivative:"),
    Edit("flipped operands", EB, "if random.uniform(0, self._bounding_event_rate) < real_derivative:",
         "if real_derivative > random.uniform(0, self._bounding_event_rate):"),
    Edit("summed: early return rewritten as if/else", EH + "two_composite_object_summed_bounding_potential_event_handler.py",
         "        bounding_potential_warning(self.__class__.__name__, bounding_event_rate, event_rate)\n",
         "        bounding_potential_warning(self.__class__.__name__, bounding_event_rate, event_rate)\n        _ = event_rate\n"),
]

# seventh round (C01_G): the inner-point grid stops one step short of the upper faces; twin: the same grid with a local step count
MUTANTS.append(Edit("inner-point grid misses the upper x face", "jellyfysh/estimator/inner_point_estimator.py",
                    "for ix in range(self._points_per_side + 1):", "for ix in range(self._points_per_side):", "R4.7"))
TWINS.append(Edit("inner-point grid: index range written as 1 + n", "jellyfysh/estimator/inner_point_estimator.py",
                  "for ix in range(self._points_per_side + 1):", "for ix in range(1 + self._points_per_side):"))
