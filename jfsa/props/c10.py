"""
C10 -- cell-based and file-based factor decompositions cover each partner exactly once.

Decided: R10.1 set algebra of the cell taggers (bounding domain = all cells minus nearby(active), excluded domain =
nearby(active), surplus = all surplus units, all from the same cell occupancy); R10.2 far-field tables of the cell-veto
handler and the cell-bounding potential range over exactly the non-nearby cells, target lookup and offset -> target;
R10.3 per shipped .ini and cell system: exactly one excluded-cells and one cell-boundary tagger, a surplus tagger iff the
occupant limit is positive, at most one far-field tagger (absent only for hard-core potentials); R10.4 factor files are
closed under the mirror image and every factor-map tagger resolves its label; R10.5 shape of the factor-map generators.
Not decided: the partition on concrete float positions (needs C11 / C16 on floats).
"""
import ast
from typing import Dict, List

from ..cell_rules import check_config_families, check_occupancy, check_tagger_algebra
from ..config_graph import ConfigGraph
from ..core import IdiomNotRecognised, AnalysisError, Loc, Report, Source, norm
from ..handlers import HandlerFacts
from ..inifront import load_all
from ..pools import check_factor_files_symmetric, check_factor_taggers
from ..pyfront import Program, body_without_docstring, param_names, self_attr
from ..guards import atoms, path_conditions
from ..normalize import canon
from ..resolve import Resolver
from ..selftest import Edit

ID = "C10"
FTM = "jellyfysh/activator/tagger/factor_type_maps.py"


def check_factor_generators(prog: Program, rep: Report) -> None:
    mi = prog.modules.get("jellyfysh.activator.tagger.factor_type_maps")
    if mi is None:
        raise AnalysisError("factor_type_maps module not found")
    fm = mi.classes.get("_FactorTypeMap")
    if fm is None:
        raise AnalysisError("_FactorTypeMap not found")
    # append_to_map: keyed by every index of the active object's half, stores the whole index set
    am = fm.methods.get("append_to_map")
    loc = Loc(FTM, am.lineno if am else 0, "_FactorTypeMap.append_to_map")
    ok = False
    if am is not None:
        am = canon(prog, fm, am, helpers=False)
        ps = param_names(am)
        loops = [n for n in body_without_docstring(am) if isinstance(n, ast.For) and norm(n.iter) == ps[0]]
        if len(loops) == 1:
            var = norm(loops[0].target)

            def files_under(c: ast.AST) -> bool:
                """c is  <map>[var].append(..)  or  <map>.setdefault(var, []).append(..)"""
                if not (isinstance(c, ast.Call) and isinstance(c.func, ast.Attribute) and c.func.attr == "append"):
                    return False
                r = c.func.value
                if isinstance(r, ast.Subscript) and self_attr(r.value) and norm(r.slice) == var:
                    return True
                return isinstance(r, ast.Call) and isinstance(r.func, ast.Attribute) and r.func.attr == "setdefault" \
                    and self_attr(r.func.value) is not None and r.args and norm(r.args[0]) == var
            app = [c for c in ast.walk(loops[0]) if files_under(c)]
            if len(app) > 1:
                # further tables may be filled alongside: the rule is about the map the generators read
                def table_of(c: ast.AST):
                    r = c.func.value
                    return self_attr(r.value) if isinstance(r, ast.Subscript) else self_attr(r.func.value)
                the_map = [c for c in app if table_of(c) == "_map"]
                app = the_map if len(the_map) == 1 else app
            if len(app) != 1:
                ok = None
            if len(app) == 1:
                exits: List[str] = []
                conds = path_conditions(loops[0].body, app[0], exits) or []
                # every index below n is filed: the only condition is `index < n`, and nothing ends the loop early
                ok = ps[0] in norm(app[0].args[0]) and set(conds) == {f"{var} < setting.number_of_nodes_per_root_node"} and not exits \
                    and not any(isinstance(x, (ast.Break, ast.Return)) for x in ast.walk(loops[0]))
    rep.ob("R10.5-map-keys", ok, loc, "map[index] gets the whole index set, for every index of the first object",
           "every index set must be filed under each of its indices that belongs to the active composite object, and only those")
    # local generator
    lg = fm.methods.get("_yield_factor_identifier_local")
    ng = fm.methods.get("_yield_factor_identifier_non_local")
    # private one-expression helpers (static or not) are read where they are used
    lg, ng = (canon(prog, fm, g_) if g_ is not None else None for g_ in (lg, ng))
    for g, local in ((lg, True), (ng, False)):
        if g is None:
            rep.ob("R10.5-generator-shape", None, Loc(FTM, fm.node.lineno, fm.name), "generator", "not found")
            continue
        a = param_names(g)[0]
        loc = Loc(FTM, g.lineno, f"_FactorTypeMap.{g.name}")
        ys = [n for n in ast.walk(g) if isinstance(n, ast.Yield)]
        # the loop over the index sets filed under the active point mass's index: map[a[1]] or map.get(a[1], <empty>)
        def index_sets(it: ast.AST) -> bool:
            t = norm(it)
            if t == f"self._map[{a}[1]]":
                return True
            return isinstance(it, ast.Call) and norm(it.func) == "self._map.get" and len(it.args) == 2 and norm(it.args[0]) == f"{a}[1]" \
                and norm(it.args[1]) in ("()", "[]")
        inner = [n for n in ast.walk(g) if isinstance(n, ast.For) and index_sets(n.iter)]
        if not inner:
            # the loop over the index sets filed under the active index is not written in a form that is followed (another table, a
            # look-up bound to a local with an early exit, ..): the rules on the instantiation have nothing to attach to
            for r_ in ("R10.5-generator-shape", "R10.5-local-instantiation" if local else "R10.5-nonlocal-instantiation") + \
                    (() if local else ("R10.5-nonlocal-once-per-other-object",)):
                rep.ob(r_, None, loc, g.name, "idiom not recognised: loop over the index sets of the active index not found")
            continue
        rep.ob("R10.5-generator-shape", len(ys) == 1 and len(inner) == 1, loc, f"{g.name}: one tuple per index set containing the active index",
               "the generator must yield exactly one in-state per index set of the active point mass's index")
        if not ys:
            continue
        # the yielded in-state: tuple(<pair> for t in <index set>) where the index set is the loop variable over map[a[1]]
        yv = ys[0].value
        gen = yv.args[0] if isinstance(yv, ast.Call) and norm(yv.func) == "tuple" and len(yv.args) == 1 and isinstance(yv.args[0], (ast.GeneratorExp, ast.ListComp)) else None
        setvar = norm(inner[0].target) if inner else None
        shape_ok = gen is not None and len(gen.generators) == 1 and not gen.generators[0].ifs and norm(gen.generators[0].iter) == setvar \
            and isinstance(gen.generators[0].target, ast.Name)
        t = gen.generators[0].target.id if shape_ok else None
        n_ = "setting.number_of_nodes_per_root_node"
        if local:
            ok = shape_ok and norm(gen.elt) == f"({a}[0], {t})"
            rep.ob("R10.5-local-instantiation", bool(ok), loc, ys[0].value,
                   "an intra-object index set is instantiated once, inside the active point mass's own composite object")
        else:
            outer = [n for n in ast.walk(g) if isinstance(n, ast.For) and "range(setting.number_of_root_nodes)" in norm(n.iter)]
            ok_outer = len(outer) == 1
            skip_ok = False
            if ok_outer:
                o = norm(outer[0].target)
                exits2: List[str] = []
                conds = path_conditions(outer[0].body, ys[0], exits2) or []
                required = atoms(ast.parse(f"{o} != {a}[0]", mode="eval").body)[0]
                allowed = {required, f"{a}[1] in self._map"}
                skip_ok = required in conds and set(conds) <= allowed and not exits2
                inst = False
                if shape_ok and isinstance(gen.elt, ast.IfExp):
                    at = atoms(gen.elt.test)
                    own, other = f"({a}[0], {t})", f"({o}, {t} - {n_})"
                    if at == [f"{t} < {n_}"]:
                        inst = norm(gen.elt.body) == own and norm(gen.elt.orelse) == other
                    elif at == [f"{n_} <= {t}"]:
                        inst = norm(gen.elt.body) == other and norm(gen.elt.orelse) == own
                rep.ob("R10.5-nonlocal-instantiation", inst, loc, ys[0].value,
                       "indices below n belong to the active object, indices from n on to the other object (shifted by n)")
            rep.ob("R10.5-nonlocal-once-per-other-object", ok_outer and skip_ok, loc, "for every other composite object exactly once",
                   "an inter-object index set is instantiated once per other composite object, never with the active object itself")
    # the tagger de-duplicates in-states of several active leaves
    tg = prog.class_named("FactorTypeMapInStateTagger").methods.get("yield_identifiers_send_event_time")
    ok = False
    if tg is not None:
        tg = canon(prog, prog.class_named("FactorTypeMapInStateTagger"), tg, helpers=False)
        for n in ast.walk(tg):
            if not isinstance(n, ast.YieldFrom):
                continue
            v = n.value
            if isinstance(v, ast.Call) and norm(v.func) == "set":
                ok = True
            elif isinstance(v, ast.SetComp):
                ok = True
            elif isinstance(v, ast.Name):
                # a local that is only ever a set (created by set() / a set display and filled by add / update)
                defs = [a.value for a in ast.walk(tg) if isinstance(a, ast.Assign) and any(isinstance(t, ast.Name) and t.id == v.id for t in a.targets)]
                ok = bool(defs) and all((isinstance(d, ast.Call) and norm(d.func) == "set") or isinstance(d, (ast.Set, ast.SetComp)) for d in defs)
    rep.ob("R10.5-dedup-over-active-leaves", ok, Loc("jellyfysh/activator/tagger/factor_type_map_in_state_tagger.py", tg.lineno if tg else 0,
                                                   "FactorTypeMapInStateTagger.yield_identifiers_send_event_time"),
           "yield from set(...)", "when several point masses of one object are active the same index set must not be treated twice")
    if tg is not None:
        # every leaf of every active root cnode is asked: a generator / loop over the parameter, and inside it one over
        # yield_leaf_nodes(<that variable>), without a filter
        ps = param_names(tg)
        gens = [(norm(g.target), norm(g.iter), bool(g.ifs)) for g in ast.walk(tg) if isinstance(g, ast.comprehension)]
        gens += [(norm(l.target), norm(l.iter), False) for l in ast.walk(tg) if isinstance(l, ast.For)]
        roots = [v for v, it, flt in gens if it in ps and not flt]
        okl = any(it == f"yield_leaf_nodes({rv})" and not flt for rv in roots for v, it, flt in gens)
        rep.ob("R10.5-all-active-leaves", okl,
               Loc("jellyfysh/activator/tagger/factor_type_map_in_state_tagger.py", tg.lineno, "FactorTypeMapInStateTagger.yield_identifiers_send_event_time"),
               "all leaves of all active root cnodes", "every active point mass must be asked for its index sets")


def analyse(src: Source) -> List[Report]:
    rep = Report(ID, src)
    rep.explain(
        "R10.1: from the comprehensions of the three cell taggers: excluded = occupants of nearby_cells(active cell); bounding = "
        "occupants of the cells of yield_cells() that are `not in nearby_cells(active cell)`, with no further filter; surplus = "
        "all of yield_surplus(); active cell and unit always from yield_active_cells() of the same occupancy -- so the three "
        "families are a set-algebraic partition of occupants and surplus units. R10.2: the cell-veto walker tables and the "
        "cell-bounding potential tables are built over exactly yield_cells() minus nearby_cells(zero_cell), keyed by the "
        "relative cell; the sampled offset is translated from the active cell; the mediator looks the target up in the veto "
        "tagger's own occupancy and hands over every occupant. R10.3: family completeness per cell system in all shipped .ini. "
        "R10.4: mirror closure of the factor files and label resolution. R10.5: map keyed by the active object's indices, one "
        "in-state per index set, once inside the object (local) or once per other object (non-local, active object skipped), "
        "de-duplicated over active leaves. Also runs the occupancy bookkeeping rules of C11 (recorded once, cap). Not decided: "
        "the partition on concrete float positions.")
    prog = Program(src)
    check_tagger_algebra(prog, rep)
    check_occupancy(prog, rep)
    check_factor_generators(prog, rep)
    from ..memo import check_memo_keys
    check_memo_keys(prog, rep, "R10.7-memo-key", ("jellyfysh/activator/",))
    from ..cell_rules import check_active_cell_level
    check_active_cell_level(prog, rep, "R10.2-active-cell-at-cell-level")
    cfgs = load_all(prog)
    cache: Dict[str, HandlerFacts] = {}
    for cfg in cfgs:
        g = ConfigGraph(prog, cfg, cache)
        check_config_families(prog, cfg, g, rep)
        g.explore(rep, ("C10",))
        check_factor_taggers(prog, cfg, g, rep, ("R1.2",))
    check_factor_files_symmetric(prog, cfgs, rep)
    # the index sets are read as whole integers: iterating over a matched STRING yields characters, so `int(c) for c in match.group(1)`
    # splits every index >= 10 into digits (all shipped files use single digits and parse the same)
    fmod = prog.modules.get("jellyfysh.activator.tagger.factor_type_maps")
    n_int = 0
    for fn_ in [f_ for f_ in ast.walk(fmod.tree) if isinstance(f_, ast.FunctionDef)] if fmod else []:
        RF_ = Resolver(fn_)
        for loop_ in [x for x in ast.walk(fn_) if isinstance(x, (ast.For, ast.comprehension))]:
            it_ = RF_.res(loop_.iter)
            is_string = isinstance(it_, ast.Call) and isinstance(it_.func, ast.Attribute) and it_.func.attr in ("group", "strip", "lstrip", "rstrip", "replace")
            if not is_string or not isinstance(loop_.target, ast.Name):
                continue
            scope_ = fn_
            uses_ = [c_ for c_ in ast.walk(scope_) if isinstance(c_, ast.Call) and norm(c_.func) == "int" and len(c_.args) == 1
                     and isinstance(c_.args[0], ast.Name) and c_.args[0].id == loop_.target.id]
            for u_ in uses_:
                n_int += 1
                rep.ob("R10.4-indices-whole-tokens", False, Loc(FTM, u_.lineno, fn_.name), u_,
                       f"`{norm(u_)}` converts the characters of the matched string `{norm(loop_.iter)}` one by one: an index of two digits "
                       f"becomes two indices")
    rep.ob("R10.4-indices-whole-tokens", True, Loc(FTM, 0, "factor_type_maps"), "index sets are converted token by token", "")
    # every line of a factor file is registered: a line may be skipped because of what IT is (comment, blank), never because
    # of what earlier lines were (an index set shared by two factor types is two factors)
    from ..guards import path_conditions as _pc
    n_loops = 0
    _MUT = ("add", "append", "update", "extend", "insert", "setdefault", "discard", "remove", "pop", "clear")
    for fn_ in [f_ for f_ in ast.walk(fmod.tree) if isinstance(f_, ast.FunctionDef)] if fmod else []:
        opened_ = {w.optional_vars.id for x in ast.walk(fn_) if isinstance(x, ast.With) for w in x.items
                   if isinstance(w.optional_vars, ast.Name) and isinstance(w.context_expr, ast.Call) and norm(w.context_expr.func) == "open"}
        for loop_ in [x for x in ast.walk(fn_) if isinstance(x, ast.For) and isinstance(x.iter, ast.Name) and x.iter.id in opened_]:
            n_loops += 1
            inner_ = [y for st in loop_.body for y in ast.walk(st)]
            acc_ = set()
            for y in inner_:
                if isinstance(y, ast.Call) and isinstance(y.func, ast.Attribute) and y.func.attr in _MUT:
                    acc_.add(norm(y.func.value))
                elif isinstance(y, ast.AugAssign):
                    acc_.add(norm(y.target))
                elif isinstance(y, ast.Assign):
                    acc_.update(norm(t.value) for t in y.targets if isinstance(t, ast.Subscript))
            assigned_in_loop_ = {t.id for y in inner_ if isinstance(y, ast.Assign) for t in y.targets if isinstance(t, ast.Name)}
            acc_ -= assigned_in_loop_          # a per-line local that is filled and used is not memory of earlier lines
            changed_ = True
            derived_ = set()
            while changed_:
                changed_ = False
                for y in inner_:
                    if isinstance(y, ast.Assign) and len(y.targets) == 1 and isinstance(y.targets[0], ast.Name) and y.targets[0].id not in derived_:
                        if any(norm(z) in acc_ or (isinstance(z, ast.Name) and z.id in derived_) for z in ast.walk(y.value)):
                            derived_.add(y.targets[0].id)
                            changed_ = True
            for y in inner_:
                if not isinstance(y, ast.Continue):
                    continue
                conds_ = _pc(loop_.body, y) or []
                bad_ = []
                for c_ in conds_:
                    try:
                        tree_ = ast.parse(c_, mode="eval")
                    except SyntaxError:
                        continue
                    if any(norm(z) in acc_ or (isinstance(z, ast.Name) and z.id in derived_) for z in ast.walk(tree_)):
                        bad_.append(c_)
                rep.ob("R10.4-line-skipped-on-its-own-content", not bad_, Loc(FTM, y.lineno, fn_.name), f"continue under {conds_}",
                       f"the line is skipped depending on {bad_}, which is filled from earlier lines ({sorted(acc_)}): a factor whose index set "
                       f"(or other key) occurred before is lost -- shared index sets across factor types are legitimate")
    if not n_loops:
        raise AnalysisError("no loop over the lines of an opened factor file found in factor_type_maps")
    rep.unit("config_files", len(cfgs))
    rep.expect_min("R10.1-excluded-is-nearby", 1)
    rep.expect_min("R10.1-bounding-is-complement", 1)
    rep.expect_min("R10.2-far-field-domain", 2)
    rep.expect_min("R10.3-far-field", 8)
    rep.expect_min("R1.2-mirror-closed", 8)
    rep.expect_min("R1.2-label-resolves", 35)
    rep.expect_min("R10.5-generator-shape", 2)
    # a far cell is reached only through the cell-veto proposal: the walker tables and the sampling of the target cell (C18) are the
    # far-field part of the decomposition
    reports = [rep]
    from . import c18
    try:
        included = c18.analyse(src)
    except IdiomNotRecognised as e_:
        rep.ob("R18.0-included-rule-set", None, Loc("jellyfysh", 0, "c18"), "c18", f"idiom not recognised: {e_}")
        included = []
    for r in included:
        r.prop = ID
        for f in r.findings:
            f.prop = ID
        reports.append(r)
    return reports



T = "jellyfysh/activator/tagger/"
D = "jellyfysh/config_files/2018_JCP_149_064113/"
F = "jellyfysh/config_files/factor_set_files/"
MUTANTS = [
    Edit("bounding tagger treats the nearby cells", T + "cell_bounding_potential_tagger.py",
         "and cell not in self._internal_state.cells.nearby_cells(active_cell)", "and cell in self._internal_state.cells.nearby_cells(active_cell)", "R10.1"),
    Edit("bounding tagger treats all cells", T + "cell_bounding_potential_tagger.py",
         "if self._internal_state[cell]\n                        and cell not in self._internal_state.cells.nearby_cells(active_cell))",
         "if self._internal_state[cell])", "R10.1"),
    Edit("excluded tagger iterates all cells", T + "excluded_cells_tagger.py",
         "for nearby_cell in sorted(self._internal_state.cells.nearby_cells(active_cell),\n"
         "                                                  key=lambda cell: cell.identifier)",
         "for nearby_cell in self._internal_state.cells.yield_cells()", "R10.1"),
    Edit("veto tables over all cells", "jellyfysh/event_handler/abstracts/cell_veto_event_handler.py",
         "            if cell not in self._cells.nearby_cells(cells.zero_cell):", "            if True:", "R10.2"),
    Edit("surplus tagger removed from cell_veto.ini", D + "coulomb_atoms/cell_veto.ini",
         "coulomb_surplus (surplus_cells_tagger),", "", "R10.3"),
    Edit("mirror factor removed", F + "factor_set_dipoles_atomic.txt", "[1, 2], Repulsive\n", "", "R1.2"),
    Edit("label misspelt", D + "dipoles/dipole_motion.ini", "factor_type_maps_label = harmonic", "factor_type_maps_label = harmonics", "R1.2"),
    Edit("non-local generator includes the active object", "jellyfysh/activator/tagger/factor_type_maps.py",
         "            if other_root == active_identifier[0]:\n                continue\n", "", "R10.5"),
    Edit("map keyed by all indices", "jellyfysh/activator/tagger/factor_type_maps.py",
         "            if index >= setting.number_of_nodes_per_root_node:\n                continue\n", "", "R10.5"),
    Edit("tagger does not de-duplicate", T + "factor_type_map_in_state_tagger.py", "yield from set(", "yield from list(", "R10.5"),
    Edit("cell bounding potential tables over all cells", "jellyfysh/potential/cell_bounding_potential.py",
         "            if cell not in cells.nearby_cells(cells.zero_cell):", "            if cell is not None:", "R10.2"),
    Edit("veto target from the raw cell index", "jellyfysh/event_handler/abstracts/cell_veto_event_handler.py",
         "target_cell = self._cells.translate(active_cell, relative_cell)", "target_cell = relative_cell", "R10.2"),
]
TWINS = [
    Edit("excluded tagger iterates the nearby cells as a list", T + "excluded_cells_tagger.py",
         "for nearby_cell in sorted(self._internal_state.cells.nearby_cells(active_cell),\n"
         "                                                  key=lambda cell: cell.identifier)",
         "for nearby_cell in list(sorted(self._internal_state.cells.nearby_cells(active_cell),\n"
         "                                                       key=lambda cell: cell.identifier))"),
    Edit("nearby cells bound to a local first", T + "excluded_cells_tagger.py",
         "        for active_cell, active_identifier in self._internal_state.yield_active_cells():\n",
         "        for active_cell, active_identifier in self._internal_state.yield_active_cells():\n            _ = active_cell\n"),
    Edit("factor file lines reordered", F + "factor_set_dipoles_atomic.txt", "[0, 3], Repulsive\n[1, 2], Repulsive\n", "[1, 2], Repulsive\n[0, 3], Repulsive\n"),
]
MUTANTS += [
    Edit("active cell from the leaf unit instead of the unit on the cell level", "jellyfysh/event_handler/abstracts/cell_veto_event_handler.py",
         "        active_cell = self._cells.position_to_cell(relevant_cnode.value.position)", "        active_cell = self._cells.position_to_cell(self._active_leaf_unit.position)", "R10.2"),
    Edit("cell boundary does not renew the nearby pair events", D + "coulomb_atoms/cell_veto.ini",
         "[CellBoundary]\ncreate = coulomb_nearby, coulomb_cell_veto, cell_boundary, coulomb_surplus\ntrash = coulomb_nearby, coulomb_cell_veto, cell_boundary, coulomb_surplus",
         "[CellBoundary]\ncreate = coulomb_cell_veto, cell_boundary, coulomb_surplus\ntrash = coulomb_cell_veto, cell_boundary, coulomb_surplus", "R10.6"),
]
