"""
C11 -- the cell-occupancy bookkeeping always mirrors the true particle positions.

Decided: R11.1 move-only accounting of identifiers between occupant list, surplus list and active slot in
SingleActiveCellOccupancy.initialize / update (cap-guarded placement, sibling agreement of the placement tests, the new
active unit leaves exactly one list); R11.2 the previous active unit is re-inserted under the cell recorded at entry;
R11.3 the recorded active cell is refreshed from the position (also for an unchanged active unit); R11.4 landing table of
the cell-boundary handler and component consistency; R11.5 the occupancy is updated before any tagger yields.
Not decided: position <-> cell agreement on floats, "never leaves its cell without a boundary event" (event ordering).
"""
from typing import List

from ..activator_rules import check as check_activator
from ..cell_rules import check_landing_table, check_occupancy
from ..components import check_component_consistency
from ..core import Report, Source
from ..protocol import HandlerProtocol
from ..pyfront import Program
from ..selftest import Edit

ID = "C11"


def analyse(src: Source) -> List[Report]:
    rep = Report(ID, src)
    rep.explain(
        "R11.1: every filing of a non-active unit is a cap-guarded placement `len(occupants[c]) < max or unbounded` -> "
        "occupants else surplus, identical in initialize and update; other occupant appends only replace a removed occupant "
        "of the same cell; a relevant new active unit is removed from exactly one list of its cell (occupants, else "
        "surplus); an irrelevant one is recorded nowhere; initialize files each relevant unit once under the cell of its "
        "position. R11.2: the previous active unit is re-inserted once, under the active cell / identifier recorded at entry, "
        "before these are overwritten, only if there was one. R11.3: the active cell is position_to_cell(active position), "
        "refreshed also when the active unit is unchanged. R11.4: + direction lands on the neighbour's cell_min, - direction "
        "on cell_max, same direction for neighbour and coordinate; the earliest crossing's boundary and direction are stored "
        "together and exactly that coordinate is written after a full time-slice; periodic image shifts use the component "
        "they were computed from. R11.5: TagActivator updates all internal states before the create loop; in every reachable tagger-pool state of every "
        "shipped .ini the cell-boundary tagger of each cell system is pending after every commit. Not decided: "
        "agreement of position_to_cell with the recorded cell on floats.")
    prog = Program(src)
    check_occupancy(prog, rep)
    check_landing_table(prog, rep)
    from ..cell_rules import check_cell_bounds
    check_cell_bounds(prog, rep)
    check_component_consistency(prog, rep, "R11.4-component-consistency", ("jellyfysh/event_handler/cell_boundary", "jellyfysh/activator/"))
    hp = HandlerProtocol(prog, prog.class_named("CellBoundaryEventHandler"), rep, ["R7.2", "R8.5", "R7.1"])
    hp.run()
    check_activator(prog, rep)
    from ..config_graph import ConfigGraph
    from ..inifront import load_all
    cache = {}
    from ..cell_rules import check_config_families
    for cfg in load_all(prog):
        g_ = ConfigGraph(prog, cfg, cache)
        g_.explore(rep, ("C11",))
        # every cell system of a configuration has exactly one cell-boundary tagger watching IT (rule set shared with C10): a
        # boundary tagger wired to another system's label leaves this system's active unit free to leave its recorded cell
        check_config_families(prog, cfg, g_, rep)
    rep.expect_min("R11.5-boundary-event-always-pending", 40)
    rep.expect_min("R11.1-placement-cap", 2)
    rep.expect_min("R11.2-reinsert-old-cell", 1)
    rep.expect_min("R11.4-landing-table", 1)
    rep.expect_min("R11.4-component-consistency", 2)
    rep.expect_min("R7.2-snap-after-slice", 1)
    rep.expect_min("R9.4-update-before-create", 1)
    return [rep]


OC = "jellyfysh/activator/internal_state/single_active_cell_occupancy.py"
CB = "jellyfysh/event_handler/cell_boundary_event_handler.py"
MUTANTS = [
    Edit("update: unbounded flag dropped from the re-insertion", OC,
         "                if (len(self._occupants[self._active_cell]) < self._maximum_number_occupants\n"
         "                        or self._number_occupants_not_bounded):",
         "                if len(self._occupants[self._active_cell]) < self._maximum_number_occupants:", "R11.1"),
    Edit("update: active cell overwritten before the re-insertion", OC,
         r"(        if new_active_unit\.identifier != self\._active_unit_identifier:\n)",
         r"\1            self._active_cell = self._cells.position_to_cell(new_active_unit.position)\n", "R11.2", regex=True),
    Edit("update: surplus removal dropped", OC,
         "                    self._surplus[self._active_cell].remove(new_active_unit.identifier)\n",
         "                    pass\n", "R11.1"),
    Edit("update: no refresh on cell crossing", OC,
         "        else:\n            self._active_cell = self._cells.position_to_cell(new_active_unit.position)\n",
         "        else:\n            pass\n", "R11.3"),
    Edit("initialize: append without the cap", OC,
         r"(                    cell = self\._cells\.position_to_cell\(unit\.position\)\n)                    if [^\n]*\n(?:                            [^\n]*\n)?"
         r"                        self\._occupants\[cell\]\.append\(unit\.identifier\)\n                    else:\n                        [^\n]*\n",
         r"\1                    self._occupants[cell].append(unit.identifier)\n", "R11.1", regex=True),
    Edit("landing: cell_max for + direction", CB, "self._cells.neighbor_cell(cell, direction, True).cell_min[direction]",
         "self._cells.neighbor_cell(cell, direction, True).cell_max[direction]", "R11.4"),
    Edit("landing: own cell for - direction", CB, "self._cells.neighbor_cell(cell, direction, False).cell_max[direction]",
         "self._cells.neighbor_cell(cell, direction, True).cell_max[direction]", "R11.4"),
    Edit("image shift with the stale direction", CB,
         "separation = setting.periodic_boundaries.next_image(separation, direction)",
         "separation = setting.periodic_boundaries.next_image(separation, self._direction)", "R11.4", nth=0),
    Edit("snap before slice", CB,
         r"        self\._time_slice_all_units_in_state\(\)\n(        # [^\n]*\n)?        self\._relevant_unit\.position\[self\._direction\] = self\._boundary\n",
         "        self._relevant_unit.position[self._direction] = self._boundary\n        self._time_slice_all_units_in_state()\n",
         "R7.2", regex=True),
    Edit("direction stored outside the earliest guard", CB,
         "                    self._boundary = neighbor_boundary\n                    self._direction = direction\n",
         "                    self._boundary = neighbor_boundary\n                self._direction = direction\n", "R11.4"),
    Edit("activator: occupancy updated after creation", "jellyfysh/activator/tag_activator.py",
         "        for internal_state in self._internal_states:\n            internal_state.update(extracted_active_global_state)\n", "", "R9.4"),
]
MUTANTS.append(Edit("update: non-empty surplus list deleted", OC,
                    "                if not self._surplus.get(self._active_cell, True):\n                    del self._surplus[self._active_cell]",
                    "                if self._surplus.get(self._active_cell):\n                    del self._surplus[self._active_cell]", "R11.1"))
MUTANTS.append(Edit("surplus events trash the boundary event without re-creating it",
                    "jellyfysh/config_files/2018_JCP_149_064113/coulomb_atoms/cell_bounded.ini",
                    r"(\[CoulombSurplus\]\n(?:[^\[]*\n)*?create = [^\n]*?)cell_boundary,? ?", r"\1", "R11.5", regex=True))
TWINS = [
    Edit("update: old cell saved in a local first", OC,
         r"(        if new_active_unit\.identifier != self\._active_unit_identifier:\n)",
         r"\1            previous_cell = self._active_cell\n", regex=True),
    Edit("cap test reordered", OC,
         "                    if (len(self._occupants[cell]) < self._maximum_number_occupants\n"
         "                            or self._number_occupants_not_bounded):",
         "                    if (self._number_occupants_not_bounded\n"
         "                            or len(self._occupants[cell]) < self._maximum_number_occupants):"),
]
MUTANTS += [
    Edit("charge-restricted cell system records positive charges only", OC, "(lambda unit: unit.charge[charge] != 0)", "(lambda unit: unit.charge[charge] > 0)", "R11.1"),
    Edit("lower cell corner: search stops on the neighbouring float", "jellyfysh/activator/internal_state/cell_occupancy/cells/cuboid_cells.py",
         "                    while int(lower_position / self._cell_side_lengths[index]) < cell_identifier_list[index]:\n                        lower_position = _next_float_up(lower_position)\n", "", "R11.6"),
]
TWINS += [
    Edit("relevance as negated equality", OC, "(lambda unit: unit.charge[charge] != 0)", "(lambda unit: not unit.charge[charge] == 0.0)"),
    Edit("relevance through abs", OC, "(lambda unit: unit.charge[charge] != 0)", "(lambda unit: abs(unit.charge[charge]) > 0)"),
]
