"""
C01 -- sampled configurations follow the Boltzmann distribution of the configured model.

The property proper (convergence of observables) is statistical and not decided.  Decided are necessary conditions:
R1.1 every candidate event is driven by a fresh Exp(beta) energy budget (argument exactly setting.beta, one draw per
candidate, never stored or shared between candidates); R1.2 factor files are mirror-closed and every factor-map tagger
resolves its label; R1.3 the shipped variants of one model agree on the model (potentials in the `potential` role, setting,
charges, system composition); plus the rule sets of C03 (rates are homogeneous in speed and charge), C04 (exact acceptance
ratio, unconfirmed events change nothing) and C05 (balanced lifting), each a necessary condition of exp(-beta U) sampling.
"""
import ast
from typing import Any, Dict, List, Optional, Set, Tuple

from ..config_graph import ConfigGraph
from ..core import IdiomNotRecognised, AnalysisError, Loc, Report, Source, norm
from ..handlers import HandlerFacts, concrete_handlers, parent_map
from ..inifront import IniConfig, Obj, load_all
from ..pools import check_factor_files_symmetric, check_factor_taggers
from ..pyfront import Program, param_names, self_attr
from ..selftest import Edit

ID = "C01"
CONVERGENCE_KNOBS = {"alpha", "fourier_cutoff", "position_cutoff"}
# frozen after reading: files that realise a different model than their directory siblings by design
FAMILY_EXCEPTIONS = {
    "jellyfysh/config_files/2018_JCP_149_064113/water/single_molecule.ini": "one molecule only: no inter-molecular factors",
    "jellyfysh/config_files/hard_disk_dipoles/single_hard_disk_dipole.ini": "a single dipole with different geometry by design",
}


def check_budgets(prog: Program, rep: Report) -> None:
    n = 0
    for mi, ci, fn in prog.functions():
        if not mi.file.startswith("jellyfysh/event_handler/"):
            continue
        parents = parent_map(fn)
        for call in [c for c in ast.walk(fn) if isinstance(c, ast.Call) and norm(c.func).endswith("expovariate")]:
            n += 1
            loc = Loc(mi.file, call.lineno, f"{ci.name + '.' if ci else ''}{fn.name}")
            rep.ob("R1.1-budget-is-exp-beta", len(call.args) == 1 and norm(call.args[0]) == "setting.beta" and norm(call.func) == "random.expovariate",
                   loc, call, "the energy budget of a candidate event must be drawn as random.expovariate(setting.beta): any other "
                   "rate samples a different temperature")
            # usage: argument of a displacement-like call, numerator of a division by a rate, or a single-use local
            p = parents.get(id(call))
            use = None
            if isinstance(p, ast.Call) and p is not call:
                use = "argument"
            elif isinstance(p, ast.keyword):
                use = "argument"
            elif isinstance(p, ast.BinOp) and isinstance(p.op, ast.Div) and p.left is call:
                use = "divided by the event rate"
            elif isinstance(p, ast.Assign) and isinstance(p.targets[0], ast.Name):
                name = p.targets[0].id
                loads = [x for x in ast.walk(fn) if isinstance(x, ast.Name) and x.id == name and isinstance(x.ctx, ast.Load)]
                in_loop = any(isinstance(q, (ast.For, ast.While, ast.GeneratorExp, ast.ListComp)) and any(y is l for y in ast.walk(q))
                              and not any(y is p for y in ast.walk(q)) for l in loads for q in ast.walk(fn))
                use = "single-use local" if len(loads) == 1 and not in_loop else None
            elif isinstance(p, ast.Assign) and self_attr(p.targets[0]):
                use = None
            rep.ob("R1.1-one-draw-per-candidate", use is not None, loc, call,
                   "an energy budget must be used for exactly one candidate event: it is stored, shared between several targets, "
                   "or used in an unrecognised way here")
    rep.unit("exp_beta_draw_sites", n)
    # every interaction handler draws a budget when it computes its candidate time
    for h in concrete_handlers(prog):
        facts = HandlerFacts(prog, h)
        if not (facts.kinematics_sensitive and facts.takes_in_state) or facts.snaps_position:
            continue
        draws = [c for r in facts.time_closure for c in ast.walk(r.fn) if isinstance(c, ast.Call) and norm(c.func).endswith("expovariate")]
        init_draws = []
        for c2 in prog.mro(h):
            init = c2.methods.get("__init__")
            if init is not None:
                init_draws += [c for c in ast.walk(init) if isinstance(c, ast.Call) and norm(c.func).endswith("expovariate")
                               and any(isinstance(l, ast.Lambda) and any(x is c for x in ast.walk(l)) for l in ast.walk(init))]
        rep.ob("R1.1-interaction-draws-budget", bool(draws or init_draws), Loc(h.file, h.node.lineno, h.name),
               f"{h.name}: {len(draws)} draw(s) in send_event_time, {len(init_draws)} in a stored lambda",
               "an interaction handler computes its candidate time without drawing an Exp(beta) energy budget")
    # helpers that receive the budget as a parameter: the budget divides / is passed on, once
    rep.expect_min("R1.1-budget-is-exp-beta", 8)
    rep.expect_min("R1.1-interaction-draws-budget", 10)


def _model_parameters(prog: Program, cfg: IniConfig) -> Dict[str, Any]:
    out: Dict[str, Any] = {}
    if cfg.setting is not None:
        out["setting.class"] = cfg.setting.cls.name
        for k, v in cfg.setting.args.items():
            if k in cfg.setting.given:
                out[f"setting.{k}"] = v
    for o in cfg.walk():
        pot = o.get("potential")
        if isinstance(pot, Obj):
            key = f"potential[{pot.section}]"
            out[f"{key}.class"] = pot.cls.name
            for k, v in pot.args.items():
                if k in CONVERGENCE_KNOBS or isinstance(v, (Obj, list)):
                    continue
                if k in pot.given:
                    out[f"{key}.{k}"] = v
        if o.cls.name == "ChargeValues":
            out[f"charges[{o.get('charge_name')}]"] = tuple(o.get("charge_values") or ())
        if "number_of_root_nodes" in o.given:
            out["number_of_root_nodes"] = o.get("number_of_root_nodes")
        if prog.is_subclass(o.cls, "RandomNodeCreator"):
            out["node_creator"] = o.cls.name
        if o.cls.name == "FactorTypeMaps":
            pass
    return out


def check_families(prog: Program, cfgs: List[IniConfig], rep: Report) -> None:
    fams: Dict[str, List[IniConfig]] = {}
    for c in cfgs:
        fams.setdefault(c.file.rsplit("/", 1)[0], []).append(c)
    for d, members in sorted(fams.items()):
        members = [m for m in members if m.file not in FAMILY_EXCEPTIONS]
        params = {m.file: _model_parameters(prog, m) for m in members}
        keys = sorted(set().union(*[set(p) for p in params.values()])) if params else []
        for k in keys:
            vals = {f: p[k] for f, p in params.items() if k in p}
            if len(vals) < 2:
                continue
            distinct = {repr(v) for v in vals.values()}
            ref_file = sorted(vals)[0]
            for f, v in sorted(vals.items()):
                if f == ref_file:
                    continue
                rep.ob("R1.3-variants-agree-on-the-model", repr(v) == repr(vals[ref_file]), Loc(f, 0, k),
                       f"{k} = {v!r} (as in {ref_file.split('/')[-1]}: {vals[ref_file]!r})",
                       f"`{k}` is part of the physical model (energy, temperature, composition); this file says {v!r} while "
                       f"{ref_file.split('/')[-1]} of the same family says {vals[ref_file]!r}: the variants do not sample the same "
                       f"distribution")
    rep.unit("config_families", len(fams))
    rep.expect_min("R1.3-variants-agree-on-the-model", 60)


def check_handler_copies(prog: Program, rep: Report) -> None:
    """
    R1.5: the taggers obtain their event handlers by deep-copying one initialised instance; every copy computes candidates of its
    own.  A custom `__deepcopy__` / `__copy__` that lets the copies SHARE an object is only harmless if that object is never
    written after its construction: an object with per-call state (a bounding potential that remembers the rate of its last
    displacement call) shared between handlers confirms one handler's event with another handler's rate.
    """
    def stateful(ci) -> Optional[str]:
        for c in [ci] + prog.subclasses(ci.name):
            for name, m in c.methods.items():
                if name in ("__init__", "initialize", "__setstate__", "__getstate__"):
                    continue
                for a in ast.walk(m):
                    tgts = a.targets if isinstance(a, ast.Assign) else [a.target] if isinstance(a, ast.AugAssign) else []
                    for t in tgts:
                        base = t
                        while isinstance(base, ast.Subscript):
                            base = base.value
                        if self_attr(base):
                            return f"{c.name}.{name} writes self.{self_attr(base)}"
        return None
    for ci in prog.classes:
        if not ci.file.startswith(("jellyfysh/event_handler/", "jellyfysh/potential/", "jellyfysh/lifting/", "jellyfysh/estimator/")):
            continue
        for mname in ("__deepcopy__", "__copy__"):
            m = ci.methods.get(mname)
            if m is None:
                continue
            shared = []
            for a in ast.walk(m):
                if isinstance(a, ast.Assign) and len(a.targets) == 1 and self_attr(a.value):
                    t = a.targets[0]
                    # memo[id(self.x)] = self.x   /   new.x = self.x
                    if isinstance(t, ast.Subscript) or (isinstance(t, ast.Attribute) and not self_attr(t)):
                        shared.append((self_attr(a.value), a))
                if isinstance(a, ast.Call) and isinstance(a.func, ast.Name) and a.func.id == "setattr" and len(a.args) == 3 and self_attr(a.args[2]):
                    shared.append((self_attr(a.args[2]), a))
            for attr, node in shared:
                target = None
                for c in prog.mro(ci):
                    init = c.methods.get("__init__")
                    for st in ast.walk(init) if init is not None else []:
                        if isinstance(st, ast.Assign) and any(self_attr(t) == attr for t in st.targets) and isinstance(st.value, ast.Name):
                            ann = [x.annotation for x in init.args.args + init.args.kwonlyargs if x.arg == st.value.id and x.annotation is not None]
                            if ann:
                                from ..pyfront import dotted
                                target = prog.resolve_class(c.module, (dotted(ann[0]) or "").split(".")[-1]) or target
                why = stateful(target) if target is not None else None
                rep.ob("R1.5-handler-copies-independent", None if target is None else why is None,
                       Loc(ci.file, node.lineno, f"{ci.name}.{mname}"), node,
                       f"the copies of {ci.name} share `self.{attr}`" + (f" ({target.name}), which keeps state between calls: {why}" if why else
                                                                          " whose class could not be resolved"))


def analyse(src: Source) -> List[Report]:
    rep = Report(ID, src)
    rep.explain(
        "The statistical statement itself is not decided by static analysis. Necessary conditions decided: R1.1 every "
        "expovariate in the event handlers has the argument setting.beta, is used for exactly one candidate (argument of a "
        "displacement-like call, numerator over an event rate, or a single-use local), is never stored, and every interaction "
        "handler draws one when computing its candidate time. R1.2 factor files closed under the mirror image, labels resolve. "
        "R1.3 across the shipped variants of one model (files of one directory) all keys that define U, beta, N, L and the "
        "charges have equal values (potentials in the `potential` role minus Ewald convergence knobs, setting, charge values, "
        "number of root nodes, node creator); algorithmic parameters are not compared. Appended: the reports of the C03, C04 "
        "and C05 rule sets (rate homogeneity, exact acceptance ratio, balanced lifting).")
    prog = Program(src)
    check_budgets(prog, rep)
    from ..handler_dims import check_handler_dimensions
    check_handler_dimensions(prog, src, rep, "R1.4-handler-dimensions", None)
    cfgs = load_all(prog)
    cache: Dict[str, HandlerFacts] = {}
    for cfg in cfgs:
        g = ConfigGraph(prog, cfg, cache)
        check_factor_taggers(prog, cfg, g, rep, ("R1.2",))
    check_factor_files_symmetric(prog, cfgs, rep)
    check_families(prog, cfgs, rep)
    rep.unit("config_files", len(cfgs))
    rep.expect_min("R1.2-mirror-closed", 8)
    rep.expect_min("R1.2-label-resolves", 35)
    check_handler_copies(prog, rep)
    reports = [rep]
    # the property is the top-level one: rates (C03), thinning (C04), lifting (C05) and the order in which the scheduler hands out
    # the candidate events (C06) are all necessary for it
    from . import c03, c04, c05, c06, c18
    for mod in (c03, c04, c05, c06, c18):      # ... and so is the alias sampling of the cell-veto proposals (C18)
        try:
            included = mod.analyse(src)
        except IdiomNotRecognised as e_:
            rep.ob("R1.0-included-rule-set", None, Loc("jellyfysh", 0, mod.__name__.split(".")[-1]), mod.__name__.split(".")[-1], f"idiom not recognised: {e_}")
            continue
        for r in included:
            r.prop = ID
            for f in r.findings:
                f.prop = ID
            reports.append(r)
    return reports


EH = "jellyfysh/event_handler/"
D = "jellyfysh/config_files/2018_JCP_149_064113/"
MUTANTS = [
    Edit("budget at temperature 1", EH + "two_leaf_unit_bounding_potential_event_handler.py", "random.expovariate(setting.beta))", "random.expovariate(1.0))", "R1.1"),
    Edit("uniform budget", EH + "abstracts/cell_veto_event_handler.py", "random.expovariate(setting.beta) / (total_rate * speed)",
         "random.random() / (total_rate * speed)", "R1.1"),
    Edit("one budget for all targets", EH + "two_composite_object_summed_bounding_potential_event_handler.py",
         r"        time_displacement = min\(", r"        budget = random.expovariate(setting.beta)\n        time_displacement = min(", "R1.1", regex=True),
    Edit("dipole factor missing from the file", "jellyfysh/config_files/factor_set_files/factor_set_dipoles_atomic.txt", "[1, 2], Repulsive\n", "", "R1.2"),
    Edit("harmonic power differs in one variant", D + "dipoles/cell_veto.ini", r"(\[HarmonicPotential\]\n(?:[^\[]*\n)*?power = )2", r"\g<1>4", "R1.3", regex=True),
    Edit("temperature differs in one variant", D + "coulomb_atoms/cell_veto.ini", "system_length = 1\nbeta = 2\n", "system_length = 1\nbeta = 3\n", "R1.3"),
    Edit("charges differ in one variant", D + "dipoles/atom_factors.ini", "charge_values = 1, -1", "charge_values = 1, -2", "R1.3"),
    Edit("lifting unbalanced", "jellyfysh/lifting/lifting.py", "            elif not self._active_recorded:\n", "            else:\n", "R5.1"),
    Edit("acceptance reversed", EH + "abstracts/event_handler_with_bounding_potential.py",
         "if random.uniform(0, self._bounding_event_rate) < real_derivative:", "if random.uniform(0, self._bounding_event_rate) > real_derivative:", "R4"),
    Edit("rate not linear in charge", "jellyfysh/potential/inverse_power_potential.py", "* self._prefactor * charge_one * charge_two)", "* self._prefactor * charge_one)", "R3.1"),
]
MUTANTS[2] = Edit("one budget for all targets", EH + "two_composite_object_summed_bounding_potential_event_handler.py",
                  "            random.expovariate(setting.beta)) for target_unit in self._target_leaf_units)",
                  "            self._budget) for target_unit in self._target_leaf_units)", "R1.1")
MUTANTS.append(Edit("piecewise constant: budget multiplied by the rate", EH + "abstracts/event_handler_with_bounding_potential.py",
                    "            return potential_change / constant_derivative\n", "            return potential_change * constant_derivative\n", "R1.4"))
TWINS = [
    Edit("draw bound to a local first", EH + "abstracts/cell_veto_event_handler.py",
         "        time_displacement = random.expovariate(setting.beta) / (total_rate * speed)\n",
         "        potential_change = random.expovariate(setting.beta)\n        time_displacement = potential_change / (total_rate * speed)\n"),
    Edit("chain time differs between variants", D + "dipoles/cell_veto.ini", r"(chain_time = )([0-9.]+)", r"\g<1>0.5", regex=True),
]
