"""
C15 -- periodic wrapping and minimum-image separations are exact modular arithmetic.

Decided (DESIGN.md section C15): interval x congruence abstract interpretation of the six boundary methods of every
concrete PeriodicBoundaries class; positivity / half-length pairing of the box-length globals at every writer;
sibling agreement cubic <-> cuboid.  Not decided: rounding magnitudes.
"""
import ast
from fractions import Fraction
from typing import Dict, List, Optional, Tuple

from ..core import IdiomNotRecognised, AnalysisError, Loc, Report, Source, norm
from ..ivcong import (AVal, EntryInterpreter, Undecided, congruent_to_x, within)
from ..guards import atoms, path_conditions
from ..normalize import canon, flat
from ..pyfront import Program
from ..resolve import Resolver
from ..selftest import Edit

ID = "C15"
SETTING_DIR = "jellyfysh/setting"
ENTRY_SPECS = {
    # method -> (lo, lo_closed, hi, hi_closed)
    "correct_position_entry": (Fraction(0), True, Fraction(1), False),
    "correct_separation_entry": (Fraction(-1, 2), True, Fraction(1, 2), True),
}


def _is_stub(func: ast.FunctionDef) -> bool:
    body = [s for s in func.body if not (isinstance(s, ast.Expr) and isinstance(s.value, ast.Constant))]
    return len(body) == 1 and isinstance(body[0], ast.Raise)


def _strip_tuple_gen(e: ast.AST) -> Tuple[ast.AST, Optional[str], Optional[ast.AST]]:
    """tuple(<elt> for v in <iter>) -> (elt, v, iter);  tuple(X) -> (Name('@elt'), '@elt', X);  else (e, None, None)."""
    if isinstance(e, ast.Call) and isinstance(e.func, ast.Name) and e.func.id in ("tuple", "list") and len(e.args) == 1:
        a = e.args[0]
        if isinstance(a, (ast.GeneratorExp, ast.ListComp)) and len(a.generators) == 1 and not a.generators[0].ifs \
                and isinstance(a.generators[0].target, ast.Name):
            return a.elt, a.generators[0].target.id, a.generators[0].iter
        return ast.Name(id="@elt", ctx=ast.Load()), "@elt", a
    # (x,) * n  /  n * (x,)  /  [x] * n : n copies of x
    if isinstance(e, ast.BinOp) and isinstance(e.op, ast.Mult):
        for seq in (e.left, e.right):
            if isinstance(seq, (ast.Tuple, ast.List)) and len(seq.elts) == 1:
                return seq.elts[0], "@rep", None
    return e, None, None


def _half_of(e: ast.AST) -> Optional[ast.AST]:
    """If e is X / 2, X * 0.5 or 0.5 * X return X."""
    if isinstance(e, ast.BinOp):
        if isinstance(e.op, ast.Div) and isinstance(e.right, ast.Constant) and e.right.value == 2:
            return e.left
        if isinstance(e.op, ast.Mult):
            if isinstance(e.right, ast.Constant) and e.right.value == 0.5:
                return e.left
            if isinstance(e.left, ast.Constant) and e.left.value == 0.5:
                return e.right
    return None


class GlobalWriter:
    """One function that assigns box-length globals of a setting module (possibly of another module)."""

    def __init__(self, file: str, func: ast.FunctionDef, module_alias: Optional[str]):
        self.file, self.func, self.module_alias = file, func, module_alias
        self.assigns: Dict[str, ast.Assign] = {}


def _stores_in_function(func: ast.FunctionDef):
    """Yield (kind, name, alias, assign-stmt): global-name stores and `alias.name = value` attribute stores."""
    globals_declared = set()
    for n in ast.walk(func):
        if isinstance(n, ast.Global):
            globals_declared.update(n.names)
    for n in ast.walk(func):
        if isinstance(n, ast.Assign) and len(n.targets) == 1:
            t = n.targets[0]
            if isinstance(t, ast.Name) and t.id in globals_declared:
                yield t.id, None, n
            elif isinstance(t, ast.Attribute) and isinstance(t.value, ast.Name):
                yield t.attr, t.value.id, n


def _positivity_guard(func: ast.FunctionDef, before: ast.stmt, elt_source: ast.AST, iter_src: Optional[ast.AST]) -> bool:
    """
    Is the assignment `before` only reached with a positive length?  Scalar source w: the path conditions of the assignment
    contain `0 < w` (however the guard is written: `if w <= 0: raise`, `if not w > 0: raise`, nested in an else, ...).  Sequence
    source: an earlier loop `for w in <iter_src>` raises under exactly `w <= 0`, or an earlier `if any(w <= 0 for w in <iter_src>): raise`.
    """
    def zero(e: ast.AST) -> bool:
        return isinstance(e, ast.Constant) and not isinstance(e.value, bool) and e.value == 0

    def positive_atom(atom: str, name: str) -> bool:
        parts = atom.split()
        if len(parts) != 3:
            return False
        try:
            return parts[1] == "<" and float(parts[0]) == 0 and parts[2] == name
        except ValueError:
            return False

    def nonpositive_atom(atom: str, name: str) -> bool:
        parts = atom.split()
        if len(parts) != 3:
            return False
        try:
            return parts[1] == "<=" and parts[0] == name and float(parts[2]) == 0
        except ValueError:
            return False
    body = flat(func.body)
    if isinstance(elt_source, ast.Name) and iter_src is None:
        conds = path_conditions(body, before) or []
        return any(positive_atom(c, elt_source.id) for c in conds)
    if iter_src is not None:
        for n in ast.walk(func):
            if getattr(n, "lineno", 0) >= before.lineno:
                continue
            if isinstance(n, ast.For) and isinstance(n.target, ast.Name) and norm(n.iter) == norm(iter_src):
                for r in [x for x in ast.walk(n) if isinstance(x, ast.Raise)]:
                    conds = path_conditions(n.body, r) or []
                    if len(conds) == 1 and nonpositive_atom(conds[0], n.target.id):
                        return True
            if isinstance(n, ast.If) and isinstance(n.test, ast.Call) and norm(n.test.func) == "any" and len(n.test.args) == 1 \
                    and isinstance(n.test.args[0], ast.GeneratorExp) and n.body and isinstance(n.body[-1], ast.Raise):
                g = n.test.args[0]
                if len(g.generators) == 1 and not g.generators[0].ifs and isinstance(g.generators[0].target, ast.Name) \
                        and norm(g.generators[0].iter) == norm(iter_src):
                    at = atoms(g.elt)
                    if len(at) == 1 and nonpositive_atom(at[0], g.generators[0].target.id):
                        return True
    return False


def analyse(src: Source) -> List[Report]:
    rep = Report(ID, src)
    rep.explain(
        "R15.1 range and R15.2 congruence by an interval x congruence abstract interpretation (sound float semantics: "
        "x % L in the CLOSED interval [0, L] for L > 0) of correct_position_entry / correct_separation_entry / "
        "next_image of every concrete PeriodicBoundaries class; R15.0 every writer of the box-length globals is "
        "guarded positive and writes half-length = length / 2; R15.3 vector versions map the entry version over "
        "matching indices and separation_vector is correct_separation(target - reference); R15.4 cubic and cuboid "
        "agree. Decides the modular-arithmetic shape for all inputs; does not bound rounding magnitudes.")
    rep.assume("box lengths are finite positive floats (established by the guards checked under R15.0)")
    files = [f for f in src.walk(SETTING_DIR, "*.py")]
    # ---- R15.0: box-length globals and their writers ---------------------------------------------------------
    # Discover candidates: per setting module, names assigned in a function through `global`.
    sym: Dict[str, Dict[str, Tuple[str, str]]] = {}  # module file -> name -> (kind L/H, shape scalar/vector)
    writers: List[Tuple[str, ast.FunctionDef, Dict[str, Tuple[Optional[str], ast.Assign]]]] = []
    all_py = src.walk("jellyfysh", "*.py")
    for f in all_py:
        if "/output/" in f or f.startswith("jellyfysh/output/"):
            continue
        tree = src.parse(f)
        for fn in [n for n in ast.walk(tree) if isinstance(n, ast.FunctionDef)]:
            stores: Dict[str, Tuple[Optional[str], ast.Assign]] = {}
            for name, alias, stmt in _stores_in_function(fn):
                if name.startswith("system_length"):
                    stores[name] = (alias, stmt)
            if stores:
                writers.append((f, fn, stores))
    rep.unit("python_modules_scanned", len(all_py))
    # classify names by what non-None writers assign
    name_kind: Dict[str, Tuple[str, str]] = {}
    for f, fn, stores in writers:
        for name, (alias, stmt) in stores.items():
            v = stmt.value
            if isinstance(v, ast.Constant) and v.value is None:
                continue
            elt, var, it = _strip_tuple_gen(Resolver(fn).res(v))
            shape = "vector" if var is not None else "scalar"
            # a length is taken over unchanged from a parameter; anything computed is a derived (half-length) global
            name_kind.setdefault(name, ("L" if isinstance(elt, ast.Name) else "H", shape))
    if not any(k == "L" for k, _ in name_kind.values()) or not any(k == "H" for k, _ in name_kind.values()):
        raise IdiomNotRecognised("box-length globals (length and half-length) not found in any setter")
    for f, fn, stores in writers:
        non_none = {n: s for n, s in stores.items() if not (isinstance(s[1].value, ast.Constant)
                                                             and s[1].value.value is None)}
        if not non_none:
            continue
        loc = Loc(f, fn.lineno, fn.name)
        # pair L and H of the same shape written by this function
        for shape in ("scalar", "vector"):
            ls = [(n, s) for n, s in non_none.items() if name_kind.get(n) == ("L", shape)]
            hs = [(n, s) for n, s in non_none.items() if name_kind.get(n) == ("H", shape)]
            if not ls and not hs:
                continue
            if len(ls) != 1 or len(hs) != 1:
                rep.ob("R15.0-pair", False, loc, fn.name,
                       f"writer sets {[n for n, _ in ls]} and {[n for n, _ in hs]}: length and half-length must be "
                       f"written together")
                continue
            (ln, (lalias, lst)), (hn, (halias, hst)) = ls[0], hs[0]
            RF = Resolver(fn)
            lelt, lvar, liter = _strip_tuple_gen(RF.res(lst.value))
            helt, hvar, hiter = _strip_tuple_gen(RF.res(hst.value))
            half = _half_of(helt)
            ok = half is not None
            if ok:
                # element of H (before halving) must denote the same value as element of L
                if lvar is None:
                    ok = norm(half) == norm(lelt)
                elif lvar == "@elt":  # L = tuple(W): H must be tuple(w / 2 for w in W)
                    # (or over the length tuple that was just stored: the same values)
                    def bare(e_):
                        while isinstance(e_, ast.Call) and isinstance(e_.func, ast.Name) and e_.func.id in ("tuple", "list") and len(e_.args) == 1:
                            e_ = e_.args[0]
                        return norm(e_)
                    ok = hvar is not None and hiter is not None and (bare(hiter) == bare(liter) or norm(hiter).split(".")[-1] == ln) \
                        and isinstance(half, ast.Name) and half.id == hvar
                else:  # L = tuple(e for v in it): same element expression, not depending on different loop variables
                    ok = norm(half) == norm(lelt) and hvar is not None
            rep.ob("R15.0-half", ok, Loc(f, hst.lineno, fn.name), hst,
                   f"{hn} must be {ln} / 2 elementwise (found {norm(hst.value)} vs {norm(lst.value)})")
            # positivity
            if lvar is None:
                g = _positivity_guard(fn, lst, lelt, None)
            elif lvar == "@elt":
                g = _positivity_guard(fn, lst, lelt, liter)
            else:
                g = _positivity_guard(fn, lst, lelt, None) if isinstance(lelt, ast.Name) else False
            rep.ob("R15.0-positive", g, Loc(f, lst.lineno, fn.name), lst,
                   f"no `if <length> <= 0: raise` guard dominates the assignment of {ln}")
    rep.expect_min("R15.0-half", 2)     # the cubic module may delegate the cuboid globals to the cuboid setter
    rep.expect_min("R15.0-positive", 2)

    # ---- concrete boundary classes -----------------------------------------------------------------------------
    classes: List[Tuple[str, ast.ClassDef]] = []
    for f in files:
        for n in src.parse(f).body:
            if isinstance(n, ast.ClassDef) and any(norm(b).split(".")[-1] == "PeriodicBoundaries" for b in n.bases):
                methods = {m.name: m for m in n.body if isinstance(m, ast.FunctionDef)}
                if "correct_position_entry" in methods and not _is_stub(methods["correct_position_entry"]):
                    classes.append((f, n))
    rep.unit("boundary_classes", len(classes))
    if len(classes) < 2:
        raise AnalysisError(f"expected the cubic and the cuboid PeriodicBoundaries classes, found {len(classes)}")

    summaries: Dict[str, Dict[str, str]] = {}
    prog = Program(src)
    for f, cls in classes:
        ci = next((c for c in prog.classes_in(f) if c.name == cls.name), None)
        # canonical forms: private / static helpers of the class hierarchy inlined, locals propagated
        methods = {m.name: (canon(prog, ci, m, module_functions=True) if ci is not None else m) for m in cls.body if isinstance(m, ast.FunctionDef)}
        if ci is not None:
            # the vector methods may be inherited (written once in the base class, dispatching to the entry methods of `cls`)
            for name, (owner, m) in prog.all_methods(ci).items():
                if name not in methods and name in ("correct_position", "correct_separation", "separation_vector") and not _is_stub(m):
                    methods[name] = canon(prog, ci, m)
        summaries[cls.name] = {}

        def resolve_symbol(e: ast.AST):
            if isinstance(e, ast.Name) and e.id in name_kind and name_kind[e.id][1] == "scalar":
                return name_kind[e.id][0], "*"
            if isinstance(e, ast.Subscript) and isinstance(e.value, ast.Name) and e.value.id in name_kind \
                    and name_kind[e.value.id][1] == "vector":
                return name_kind[e.value.id][0], norm(e.slice)
            return None

        # entry methods
        for mname in ("correct_position_entry", "correct_separation_entry", "next_image"):
            m = methods.get(mname)
            loc = Loc(f, m.lineno if m else cls.lineno, f"{cls.name}.{mname}")
            if m is None or _is_stub(m):
                rep.ob("R15.1-range", None, loc, mname, "method missing or stub")
                continue
            params = [a.arg for a in m.args.args if a.arg not in ("self", "cls")]
            if len(params) != 2:
                rep.ob("R15.1-range", None, loc, mname, "unexpected signature")
                continue
            interp = EntryInterpreter(m, params[0], resolve_symbol, "*")
            interp2 = EntryInterpreter(m, params[0],
                                       lambda e, p=params[1]: _rekey(resolve_symbol(e), p), "*")
            try:
                results = interp2.run()
            except Undecided as u:
                for r_ in (("R15.2-next-image",) if mname == "next_image" else ("R15.1-range", "R15.2-congruence")):
                    rep.ob(r_, None, loc, mname, f"idiom not recognised: {u}")
                continue
            for bad in interp2.wrong_component:
                rep.ob("R15.3-index", False, Loc(f, getattr(bad, "lineno", m.lineno), f"{cls.name}.{mname}"), bad,
                       f"box length of a different component than the method's index parameter `{params[1]}`")
            descr = []
            for st, val, stmt in results:
                rloc = Loc(f, getattr(stmt, "lineno", m.lineno), f"{cls.name}.{mname}")
                cons = stmt if stmt is not None else mname
                if val is None:
                    rep.ob("R15.1-range", False, rloc, cons, "a path returns no value")
                    continue
                descr.append(val.describe())
                if mname == "next_image":
                    ok = val.known and val.cx == 1 and val.cl == 1 and not val.mod
                    if not val.known and val.lo is None and val.hi is None:
                        ok = None      # nothing is known about the value (a symbol or routine the interpreter does not follow): undecided
                    rep.ob("R15.2-next-image", ok, rloc, cons,
                           f"next_image must return position + L exactly; abstract result: {val.describe()}")
                    continue
                lo, loc_, hi, hic = ENTRY_SPECS[mname]
                ok = within(val, lo, loc_, hi, hic)
                want = f"{'[' if loc_ else '('}{lo}L, {hi}L{']' if hic else ')'}"
                rep.ob("R15.1-range", ok, rloc, cons,
                       f"result must lie in {want} for every float input; abstract result: {val.describe()} "
                       f"(float `%` can return L itself for a tiny negative left operand)", sample=True)
                rep.ob("R15.2-congruence", congruent_to_x(val, st), rloc, cons,
                       f"result must be congruent to the input modulo L; abstract result: {val.describe()}")
            summaries[cls.name][mname] = " | ".join(sorted(set(descr)))
        # vector methods
        vector_ok: Dict[str, Optional[bool]] = {}
        for vname, ename in (("correct_position", "correct_position_entry"),
                             ("correct_separation", "correct_separation_entry")):
            m = methods.get(vname)
            loc = Loc(f, m.lineno if m else cls.lineno, f"{cls.name}.{vname}")
            if m is None:
                rep.ob("R15.3-map", None, loc, vname, "method missing")
                continue
            ok, why = _check_vector_method(m, cls.name, resolve_symbol, ENTRY_SPECS[ename], ENTRY_SPECS)
            rep.ob("R15.3-map", ok, loc, vname, why)
            vector_ok[vname] = ok
            summaries[cls.name][vname] = f"componentwise within spec of {ename}" if ok else "?"
        m = methods.get("separation_vector")
        loc = Loc(f, m.lineno if m else cls.lineno, f"{cls.name}.separation_vector")
        if m is None:
            rep.ob("R15.3-separation", None, loc, "separation_vector", "method missing")
        else:
            ok, why = _check_separation_vector(m, cls.name, resolve_symbol, ENTRY_SPECS, vector_ok.get("correct_separation"))
            rep.ob("R15.3-separation", ok, loc, "separation_vector", why)
            summaries[cls.name]["separation_vector"] = "target - reference, componentwise within the separation spec" if ok else "?"
    rep.expect_min("R15.1-range", 4)
    rep.expect_min("R15.2-congruence", 4)
    rep.expect_min("R15.2-next-image", 2)
    rep.expect_min("R15.3-map", 4)
    rep.expect_min("R15.3-separation", 2)
    # ---- R15.4 sibling agreement ---------------------------------------------------------------------------------
    names = sorted(summaries)
    ref = summaries[names[0]]
    for other in names[1:]:
        for mname in sorted(set(ref) | set(summaries[other])):
            a, b = ref.get(mname), summaries[other].get(mname)
            f = [ff for ff, c in classes if c.name == other][0]
            rep.ob("R15.4-siblings", a == b, Loc(f, 0, f"{other}.{mname}"), mname,
                   f"abstract result differs between {names[0]} ({a}) and {other} ({b})")
    rep.extra["abstract_results"] = summaries
    return [rep]


def _rekey(sym, index_param: str):
    """Map ('L', '<index_param>') to ('L', '*') so that a vector length indexed by the method's own index parameter
    counts as 'the box length of this component'; any other index stays a different symbol."""
    if sym is None:
        return None
    kind, key = sym
    if key == index_param:
        return kind, "*"
    return kind, key


class _ToScalar(ast.NodeTransformer):
    """Rewrite the body of a per-component loop into a scalar function body: vec[idx] -> x, elt alias -> x."""

    def __init__(self, vec: str, idx: str, elt: Optional[str]) -> None:
        self.vec, self.idx, self.elt = vec, idx, elt

    def visit_Subscript(self, node: ast.Subscript):
        if isinstance(node.value, ast.Name) and node.value.id == self.vec and isinstance(node.slice, ast.Name) \
                and node.slice.id == self.idx:
            return ast.copy_location(ast.Name(id="@x", ctx=node.ctx), node)
        return self.generic_visit(node)

    def visit_Name(self, node: ast.Name):
        if self.elt is not None and node.id == self.elt and isinstance(node.ctx, ast.Load):
            return ast.copy_location(ast.Name(id="@x", ctx=ast.Load()), node)
        return node


def _component_loop(stmt: ast.stmt, vec: str) -> Optional[Tuple[str, Optional[str], List[ast.stmt], str]]:
    """for idx, elt in enumerate(vec)  /  for idx in range(dimension | len(vec)) -> (idx, elt, body, coverage text)"""
    if not isinstance(stmt, ast.For):
        return None
    it = stmt.iter
    if isinstance(it, ast.Call) and isinstance(it.func, ast.Name) and it.func.id == "enumerate" and len(it.args) == 1 \
            and isinstance(it.args[0], ast.Name) and it.args[0].id == vec and isinstance(stmt.target, ast.Tuple) \
            and len(stmt.target.elts) == 2 and all(isinstance(e, ast.Name) for e in stmt.target.elts):
        return stmt.target.elts[0].id, stmt.target.elts[1].id, stmt.body, "enumerate"
    if isinstance(it, ast.Call) and isinstance(it.func, ast.Name) and it.func.id == "range" and len(it.args) == 1 \
            and norm(it.args[0]) in ("dimension", f"len({vec})") and isinstance(stmt.target, ast.Name):
        return stmt.target.id, None, stmt.body, "range"
    return None


def _interpret_component(body: List[ast.stmt], vec: str, idx: str, elt: Optional[str], clsname: str, resolve_symbol,
                         entry_specs: Dict[str, Tuple]) -> Tuple[List[Tuple], List[ast.AST]]:
    """Abstractly run one component of a vector loop. Returns ([(state, value, stmt)], wrong-component nodes)."""
    tr = _ToScalar(vec, idx, elt)
    new_body = [tr.visit(ast.parse(ast.unparse(s)).body[0]) for s in body]
    fn = ast.FunctionDef(name="component", args=ast.arguments(posonlyargs=[], args=[ast.arg(arg="@x"), ast.arg(arg=idx)],
                                                              kwonlyargs=[], kw_defaults=[], defaults=[]),
                         body=new_body + [ast.Return(value=ast.Name(id="@x", ctx=ast.Load()))], decorator_list=[], lineno=1)
    ast.fix_missing_locations(fn)
    wrong: List[ast.AST] = []

    def summary(call: ast.Call, st, interp):
        f = call.func
        if isinstance(f, ast.Attribute) and isinstance(f.value, ast.Name) and f.value.id in (clsname, "self", "cls") \
                and f.attr in entry_specs and len(call.args) == 2:
            if not (isinstance(call.args[1], ast.Name) and call.args[1].id == idx):
                wrong.append(call)
                return None
            a = interp.eval(call.args[0], st)
            lo, loc_, hi, hic = entry_specs[f.attr]
            r = AVal(a.cx, a.cl, True, lo, not loc_, hi, not hic) if a.known else AVal(None, None, False, lo, not loc_, hi, not hic)
            return r
        return None

    interp = EntryInterpreter(fn, "@x", lambda e: _rekey(resolve_symbol(e), idx), "*", call_summary=summary)
    results = interp.run()
    return results, wrong + interp.wrong_component


def _check_vector_method(m: ast.FunctionDef, clsname: str, resolve_symbol, spec: Tuple, entry_specs) -> Tuple[Optional[bool], str]:
    params = [a.arg for a in m.args.args if a.arg not in ("self", "cls")]
    if len(params) != 1:
        return None, "unexpected signature"
    vec = params[0]
    body = [s for s in m.body if not (isinstance(s, ast.Expr) and isinstance(s.value, ast.Constant))]
    if len(body) != 1:
        return None, "idiom not recognised (expected one loop over the components)"
    lp = _component_loop(body[0], vec)
    if lp is None:
        return None, "loop idiom not recognised"
    idx, elt, lbody, _ = lp
    try:
        results, wrong = _interpret_component(lbody, vec, idx, elt, clsname, resolve_symbol, entry_specs)
    except Undecided as u:
        return None, str(u)
    if wrong:
        return False, f"component `{idx}` is corrected with the box length / entry method of another component: {norm(wrong[0])}"
    lo, loc_, hi, hic = spec
    for st, val, stmt in results:
        if val is None or not within(val, lo, loc_, hi, hic):
            return False, f"a component can end outside the required range; abstract result: {val.describe() if val else None}"
        if not congruent_to_x(val, st):
            return False, f"a component is not congruent to its input modulo L; abstract result: {val.describe()}"
    return True, ""


def _check_separation_vector(m: ast.FunctionDef, clsname: str, resolve_symbol, entry_specs, vector_ok: bool
                             ) -> Tuple[Optional[bool], str]:
    params = [a.arg for a in m.args.args if a.arg not in ("self", "cls")]
    if len(params) != 2:
        return None, "unexpected signature"
    ref, tgt = params
    body = [s for s in m.body if not (isinstance(s, ast.Expr) and isinstance(s.value, ast.Constant))]
    if not body or not isinstance(body[-1], ast.Return) or body[-1].value is None:
        return None, "idiom not recognised"
    spec = entry_specs["correct_separation_entry"]
    first = body[0]
    # `sep = [..]; ...; return [f(i, e) for i, e in enumerate(sep)]` (a new list instead of the correction in place) is the loop
    # `for i, e in enumerate(sep): sep[i] = f(i, e)` followed by `return sep`
    if len(body) >= 2 and isinstance(first, ast.Assign) and isinstance(first.targets[0], ast.Name) and isinstance(body[-1].value, ast.ListComp) \
            and len(body[-1].value.generators) == 1 and not body[-1].value.generators[0].ifs:
        sep0 = first.targets[0].id
        g = body[-1].value.generators[0]
        tgt_txt, it_txt = norm(g.target), norm(g.iter)
        loop_src = None
        if it_txt == f"enumerate({sep0})" and isinstance(g.target, ast.Tuple) and len(g.target.elts) == 2:
            loop_src = f"for {ast.unparse(g.target)} in enumerate({sep0}):\n    {sep0}[{norm(g.target.elts[0])}] = {ast.unparse(body[-1].value.elt)}"
        elif it_txt == sep0 and isinstance(g.target, ast.Name):
            loop_src = f"for __i, {g.target.id} in enumerate({sep0}):\n    {sep0}[__i] = {ast.unparse(body[-1].value.elt)}"
        elif it_txt in ("range(dimension)", f"range(len({sep0}))") and isinstance(g.target, ast.Name):
            loop_src = f"for {g.target.id} in {ast.unparse(g.iter)}:\n    {sep0}[{g.target.id}] = {ast.unparse(body[-1].value.elt)}"
        if loop_src is not None:
            body = body[:-1] + [ast.parse(loop_src).body[0], ast.parse(f"return {sep0}").body[0]]
    # form 1: return [entry(tgt[i] - ref[i], i) for i in range(dimension)]
    comp = None
    if len(body) == 1 and isinstance(body[0].value, ast.ListComp):
        comp, sep = body[0].value, None
    elif isinstance(first, ast.Assign) and isinstance(first.targets[0], ast.Name) and isinstance(first.value, ast.ListComp):
        comp, sep = first.value, first.targets[0].id
    if comp is None or len(comp.generators) != 1 or not isinstance(comp.generators[0].target, ast.Name):
        return None, "idiom not recognised"
    i = comp.generators[0].target.id
    it = comp.generators[0].iter
    if not (isinstance(it, ast.Call) and isinstance(it.func, ast.Name) and it.func.id == "range"
            and len(it.args) == 1 and norm(it.args[0]) in ("dimension", f"len({ref})", f"len({tgt})")):
        return False, f"components must range over the dimension (found {norm(it)})"
    diff = f"{tgt}[{i}] - {ref}[{i}]"
    elt = comp.elt
    stmts: List[ast.stmt] = []
    if norm(elt) == diff:
        pass
    elif isinstance(elt, ast.Call) and len(elt.args) == 2 and norm(elt.args[0]) == diff:
        stmts.append(ast.parse(f"__v[{i}] = {ast.unparse(elt).replace(diff, '__v[' + i + ']')}").body[0])
    elif norm(elt).count(diff) == 1:
        # the difference corrected by an expression written in place
        stmts.append(ast.parse(f"__v[{i}] = {ast.unparse(elt).replace(ast.unparse(ast.parse(diff).body[0].value), '__v[' + i + ']')}").body[0])
        if "__v[" not in ast.unparse(stmts[-1].value):
            return None, f"component expression not recognised: {norm(elt)}"
    elif f"{ref}[{i}] - {tgt}[{i}]" in norm(elt):
        return False, f"separation must start from target - reference per component (found {norm(elt)})"
    else:
        return None, f"component expression not recognised: {norm(elt)}"
    vec = "__v"
    idx = i
    loops_done = False
    for st in body[1:-1]:
        if isinstance(st, ast.Expr) and isinstance(st.value, ast.Call) and isinstance(st.value.func, ast.Attribute) \
                and st.value.func.attr == "correct_separation" and isinstance(st.value.func.value, ast.Name) \
                and st.value.func.value.id in (clsname, "self", "cls") and len(st.value.args) == 1 and norm(st.value.args[0]) == sep:
            if vector_ok is None:
                return None, "relies on correct_separation, which could not be decided"
            if not vector_ok:
                return False, "relies on correct_separation, which is itself not a valid componentwise correction"
            stmts.append(ast.parse(f"__v[{idx}] = {clsname}.correct_separation_entry(__v[{idx}], {idx})").body[0])
        else:
            lp = _component_loop(st, sep) if sep else None
            if lp is None:
                return None, f"statement not recognised: {norm(st)}"
            lidx, lelt, lbody, _ = lp
            ren = _ToScalar(sep, lidx, lelt)
            for s2 in lbody:
                t = ren.visit(ast.parse(ast.unparse(s2)).body[0])
                txt = ast.unparse(t).replace("@x", f"__v[{idx}]")
                if lidx != idx:
                    import re as _re
                    txt = _re.sub(rf"\b{lidx}\b", idx, txt)
                stmts.append(ast.parse(txt).body[0])
    if sep is not None and norm(body[-1].value) != sep:
        return False, "must return the corrected separation"
    try:
        results, wrong = _interpret_component(stmts, vec, idx, None, clsname, resolve_symbol, entry_specs)
    except Undecided as u:
        return None, str(u)
    if wrong:
        return False, f"a component is corrected with the box length / entry method of another component: {norm(wrong[0])}"
    lo, loc_, hi, hic = spec
    for st, val, stmt in results:
        if val is None or not within(val, lo, loc_, hi, hic):
            return False, (f"a component of the separation can exceed half the box length for some pair of positions; abstract "
                           f"result: {val.describe() if val else None}")
        if not congruent_to_x(val, st):
            return False, f"a component is not congruent to target - reference modulo L; abstract result: {val.describe()}"
    return True, ""


CUBIC = "jellyfysh/setting/hypercubic_setting.py"
CUBOID = "jellyfysh/setting/hypercuboid_setting.py"

MUTANTS = [
    Edit("cubic separation: subtract L instead of L/2", CUBIC,
         "% system_length - system_length_over_two", "% system_length - system_length", "R15"),
    Edit("cubic separation: fmod instead of %", CUBIC,
         "return (separation_entry + system_length_over_two) % system_length - system_length_over_two",
         "import math\n        return math.fmod(separation_entry + system_length_over_two, system_length) - "
         "system_length_over_two", "R15.1"),
    Edit("cuboid position: index 0 instead of index", CUBOID,
         "% system_lengths[index]", "% system_lengths[0]", "R15", nth=0),
    Edit("cuboid separation: shift by other component", CUBOID,
         "(separation_entry + system_lengths_over_two[index])", "(separation_entry + system_lengths_over_two[0])",
         "R15"),
    Edit("cuboid next_image: half a box", CUBOID,
         "return position_entry + system_lengths[direction]", "return position_entry + system_lengths_over_two[direction]",
         "R15.2"),
    Edit("cubic next_image: minus", CUBIC,
         "return position_entry + system_length\n", "return position_entry - system_length\n", "R15.2"),
    Edit("cubic setter: half length not half", CUBIC,
         "system_length_over_two = wanted_system_length / 2.0", "system_length_over_two = wanted_system_length / 3.0",
         "R15"),
    Edit("cuboid setter: drop positivity guard", CUBOID,
         "        if wanted_system_length <= 0.0:", "        if wanted_system_length < -1.0:", "R15.0"),
    Edit("cubic separation_vector: reference - target", CUBIC,
         "[target_position[index] - reference_position[index] for index in range(dimension)]",
         "[reference_position[index] - target_position[index] for index in range(dimension)]", "R15.3"),
    Edit("cuboid correct_separation: wrong index passed", CUBOID,
         "HypercuboidPeriodicBoundaries.correct_separation_entry(entry, index)",
         "HypercuboidPeriodicBoundaries.correct_separation_entry(entry, 0)", "R15.3"),
    Edit("cubic correct_position: uses separation correction", CUBIC,
         "HypercubicPeriodicBoundaries.correct_position_entry(entry, index)",
         "HypercubicPeriodicBoundaries.correct_separation_entry(entry, index)", "R15.3"),
    Edit("cubic position: bare float % (the original defect)", CUBIC,
         r"(    def correct_position_entry\(position_entry: float, _: int\) -> float:\n(?:(?!\n    @staticmethod).)*?\"\"\"\n)"
         r"(?:        [^\n]*\n)+?(\n    @staticmethod)",
         r"\1        return position_entry % system_length\n\2", "R15.1", regex=True),
]
TWINS = [
    Edit("cubic separation via local", CUBIC,
         "return (separation_entry + system_length_over_two) % system_length - system_length_over_two",
         "shifted = separation_entry + system_length_over_two\n        wrapped = shifted % system_length\n"
         "        return wrapped - system_length_over_two"),
    Edit("cubic next image via local", CUBIC,
         "return position_entry + system_length\n", "image = position_entry + system_length\n        return image\n"),
    Edit("cuboid setter: multiply by 0.5", CUBOID,
         "tuple(wanted_system_length / 2.0 for wanted_system_length in wanted_system_lengths)",
         "tuple(0.5 * wanted_system_length for wanted_system_length in wanted_system_lengths)"),
]
