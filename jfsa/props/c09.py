"""
C09 -- pending candidate events equal what a fresh start from the current state creates.

Decided: config-graph abstract reachability over every shipped .ini at tagger granularity (R9.1 I1, I2, I3-zombie, I4,
I5), handler-pool sufficiency of factor-map taggers (R9.2), linear bookkeeping and ordering inside TagActivator (R9.3,
R9.4).  Not decided: multiset equality of in-state tuples inside one tagger on concrete states.
"""
from typing import Dict, List

from ..activator_rules import check as check_activator
from ..config_graph import ConfigGraph
from ..core import Report, Source
from ..handlers import HandlerFacts
from ..inifront import load_all
from ..pools import check_factor_taggers
from ..pyfront import Program
from ..selftest import Edit

ID = "C09"


def analyse(src: Source) -> List[Report]:
    rep = Report(ID, src)
    rep.explain(
        "R9.1: for every shipped .ini the tagger pool is abstracted to (activated set, may-have-pending set); all "
        "reachable abstract states are enumerated with the transition of TagActivator (A' = (A + activate) - "
        "deactivate, R' = (R - trash) + (create & A')). At every (state, committing tagger): I1 the tagger trashes "
        "itself, I2 no tagger is created while an untrashed generation is pending, I3 no deactivated tagger keeps "
        "pending events, I7 no interaction tagger's events survive a hand-over of the velocity, I4 every activated non-one-shot tagger is pending afterwards, I5 every tagger is reachable. "
        "R9.2: pool demand of each factor-map tagger (from factor file, N, n) <= number_event_handlers. R9.3/R9.4: "
        "linear move-only accounting of handlers between the not-running and running pools and the order "
        "activate/deactivate < internal-state update < create in TagActivator. Decides the tagger-granularity part of "
        "'pending = fresh'; equality of in-state tuples inside one tagger is not decided.")
    rep.assume("any pending tagger may commit next (over-approximation of schedules); handler facts (one-shot, ends-run) "
               "are derived from the handler classes")
    prog = Program(src)
    cfgs = load_all(prog)
    cache: Dict[str, HandlerFacts] = {}
    states = transitions = 0
    for cfg in cfgs:
        for p in cfg.problems:
            rep.ob("R9.0-config-resolves", False, _loc(cfg), p, f"{cfg.file}: {p}")
        g = ConfigGraph(prog, cfg, cache)
        g.explore(rep, ("C09",))
        states += len(g.states)
        transitions += g.transitions
        check_factor_taggers(prog, cfg, g, rep, ("R9.2",))
    rep.unit("config_files", len(cfgs))
    rep.unit("taggers", sum(len(c.taggers()) for c in cfgs))
    rep.extra["states"] = states
    rep.extra["transitions"] = transitions
    rep.exhaustive = True
    check_activator(prog, rep)
    # the run loops keep the order commit -> trash -> mediating step -> create: a mediating step (dump, sample) that runs while the
    # committed handler is still filed as running sees / pickles a scheduler and an activator that a fresh start would not produce
    from ..mediator_rules import check_run_loops
    check_run_loops(prog, rep, "R9.6")
    # cell-based taggers generate their in-states from the occupancy: a unit filed in the wrong list is a missing factor
    from ..cell_rules import check_occupancy
    check_occupancy(prog, rep)
    # ... and a cell-based tagger that skips a cell family (own cell, nearby cells, surplus) creates fewer candidates than the
    # factors that involve the active unit: the tagger algebra of C10
    from .c10 import check_tagger_algebra
    check_tagger_algebra(prog, rep)
    # "in flight" is what the scheduler still holds as live: an event trashed by the activator must be dead in the scheduler and
    # stay dead (lazy-deletion counters, also across counter overflow and a dump / resume) -- the scheduler half of the protocol,
    # shared with C06
    from ..cfront import CUnit
    from .c06 import HEAP_C, check_heap_scheduler, check_list_scheduler
    check_heap_scheduler(src, rep, CUnit(src, HEAP_C))
    check_list_scheduler(src, rep)
    rep.expect_min("R9.1-I1-self-trash", 120)
    rep.expect_min("R9.1-I4-nothing-missing", 500)
    rep.expect_min("R9.2-pool", 35)
    rep.expect_min("R9.3-linear-create", 5)
    rep.expect_min("R9.3-linear-trash", 1)
    rep.expect_min("R9.4-update-before-create", 1)
    return [rep]


def _loc(cfg):
    from ..core import Loc
    return Loc(cfg.file, 0, "")


D = "jellyfysh/config_files/2018_JCP_149_064113/"
TA = "jellyfysh/activator/tag_activator.py"
MUTANTS = [
    Edit("power_bounded: end_of_chain no longer re-creates coulomb", D + "coulomb_atoms/power_bounded.ini",
         "[EndOfChain]\ncreate = end_of_chain, coulomb\ntrash = end_of_chain, coulomb",
         "[EndOfChain]\ncreate = end_of_chain\ntrash = end_of_chain", "R9.1-I7"),
    Edit("dipole_motion: leaf_to_root does not activate root_to_leaf", D + "dipoles/dipole_motion.ini",
         "\nactivate = coulomb_root, repulsive_root, root_to_leaf", "\nactivate = coulomb_root, repulsive_root", "R9.1"),
    Edit("dipole_motion: root_to_leaf keeps coulomb_root pending (zombie)", D + "dipoles/dipole_motion.ini",
         "trash = coulomb_root, repulsive_root, root_to_leaf, end_of_chain", "trash = repulsive_root, root_to_leaf, end_of_chain",
         "R9.1"),
    Edit("atom_factors: coulomb creates harmonic without trashing it", D + "dipoles/atom_factors.ini",
         r"(\[Coulomb\]\n(?:[^\[]*\n)*?trash = [^\n]*?)harmonic,? ?", r"\1", "R9.1-I2", regex=True),
    Edit("cell_veto: cell_boundary not re-created by coulomb cell veto", D + "coulomb_atoms/cell_veto.ini",
         r"(\[CoulombCellVeto\]\n(?:[^\[]*\n)*?create = [^\n]*?)cell_boundary,? ?", r"\1", "R9.1", regex=True),
    Edit("sampling does not trash itself", D + "coulomb_atoms/power_bounded.ini",
         "[Sampling]\ncreate = sampling\ntrash = sampling", "[Sampling]\ncreate = sampling\ntrash = end_of_run", "R9.1"),
    Edit("pool of sphere too small", "jellyfysh/config_files/hard_disk_dipoles/hard_disk_dipoles.ini",
         r"(\[Sphere\]\n(?:[^\[]*\n)*?number_event_handlers = )160", r"\g<1>159", "R9.2", regex=True),
    Edit("activator: handler not returned to the not-running pool", TA,
         "            self._not_running_event_handlers[tagger] += self._running_event_handlers[tagger]\n", "", "R9.3"),
    Edit("activator: running list cleared before it is returned", TA,
         "            trashable_events += self._running_event_handlers[tagger]\n"
         "            self._not_running_event_handlers[tagger] += self._running_event_handlers[tagger]\n"
         "            self._running_event_handlers[tagger] = []\n",
         "            self._not_running_event_handlers[tagger] += self._running_event_handlers[tagger]\n"
         "            self._running_event_handlers[tagger] = []\n"
         "            trashable_events += self._running_event_handlers[tagger]\n", "R9.3"),
    Edit("activator: internal states updated after creation", TA,
         "        for internal_state in self._internal_states:\n"
         "            internal_state.update(extracted_active_global_state)\n", "", "R9.4"),
    Edit("activator: trash loop iterates the create list", TA,
         "for tagger in self._trash_taggers[self._event_handler_tagger_dictionary[preceding_event_handler]]:",
         "for tagger in self._create_taggers[self._event_handler_tagger_dictionary[preceding_event_handler]]:", "R9.3"),
    Edit("activator: handler appended to another tagger's running pool", TA,
         "                self._running_event_handlers[tagger].append(event_handler)",
         "                self._running_event_handlers[preceding_event_tagger].append(event_handler)", "R9.3"),
    Edit("activator: trash dictionary built from creates", TA,
         "self._trash_taggers = self._build_tagger_dictionary(\"trashes\")",
         "self._trash_taggers = self._build_tagger_dictionary(\"creates\")", "R9.3"),
]
TWINS = [
    Edit("permute tags in a list", D + "dipoles/dipole_motion.ini",
         "create = coulomb_root, repulsive_root\ntrash = coulomb_root, repulsive_root",
         "create = repulsive_root, coulomb_root\ntrash = repulsive_root, coulomb_root"),
    Edit("coulomb also re-creates end_of_chain", D + "coulomb_atoms/power_bounded.ini",
         r"(\[Coulomb\]\ncreate = )([^\n]*)(\ntrash = )([^\n]*)", r"\1\2, end_of_chain\3\4, end_of_chain", regex=True),
    Edit("activator: rename loop variable", TA,
         "        for internal_state in self._internal_states:\n            internal_state.update(extracted_active_global_state)",
         "        for state in self._internal_states:\n            state.update(extracted_active_global_state)"),
    Edit("activator: extend instead of +=", TA,
         "            self._not_running_event_handlers[tagger] += self._running_event_handlers[tagger]\n",
         "            self._not_running_event_handlers[tagger].extend(self._running_event_handlers[tagger])\n"),
    Edit("bigger pool", "jellyfysh/config_files/hard_disk_dipoles/hard_disk_dipoles.ini",
         r"(\[Sphere\]\n(?:[^\[]*\n)*?number_event_handlers = )160", r"\g<1>200", regex=True),
]
