"""
C19 -- a dumped run resumes to exactly the run that was never interrupted.

Decided: R19.1 __getstate__/__setstate__ table agreement; R19.2 cdata ownership; R19.3 dump payload <-> resume unpack
agreement and restore-before-run; R19.4 RNG-source discipline and set-iteration inventory; R19.5 module-global inventory;
R19.6 dumping events are pure (no RNG, no state change, tagger touches only itself).
Not decided: bit-equality of resumed trajectories (dill, C heap layout after re-insertion, file handles).
"""
import ast
from typing import Dict, List, Optional, Set, Tuple

from ..config_graph import ConfigGraph
from ..core import AnalysisError, Loc, Report, Source, norm
from ..handlers import HandlerFacts, concrete_handlers, stores
from ..inifront import load_all
from ..pyfront import ClassInfo, Program, body_without_docstring, const_value, dotted, param_names, self_attr
from ..normalize import canon
from ..resolve import Resolver
from ..selftest import Edit

ID = "C19"
CDATA_SOURCES = ("lib.", "ffi.gc", "ffi.new_handle", "ffi.new")

# set-iteration sites confirmed by reading the pinned tree; one line of reason each
SET_ITERATION_OK = {
    ("FactorTypeMapInStateTagger", "yield_identifiers_send_event_time"):
        "set of int tuples rebuilt from scratch on every call; iteration order of ints/tuples of ints is a function of the "
        "values and the insertion sequence, both identical in the dumping and the resuming process",
    ("TreeLiftingState", "yield_independent_lifted_identifiers"):
        "sets of int tuples (hashes not randomised); pickled and rebuilt in iteration order",
    ("Mediator", "_construct_methods_dictionary"):
        "set of base-class names, construction time only, must resolve to exactly one method: order-insensitive",
    ("Mediator", "get_arguments_root_leaf_unit_active_switcher"):
        "set of int tuples built within the call",
    ("", "_get_bases_names"): "builds the set, recursion only",
}
# module-level state that is written at run time, and why it may stay out of the dump payload
GLOBAL_OK_PREFIXES = {
    "jellyfysh/setting/": "setting family: restored by resume.main from the dumped setting module",
    "jellyfysh/base/uuid.py": "restored by resume.main from the dumped uuid module",
}
GLOBAL_OK_NAMES = {
    ("jellyfysh/base/factory.py", "used_sections"): "construction-time bookkeeping of the factory only",
}


from .c06 import _removed_keys  # noqa: E402


def _cm(prog: Program, ci: ClassInfo, name: str) -> Optional[ast.FunctionDef]:
    """canonical form of a method defined in ci (private helpers inlined, locals propagated)"""
    fn = ci.methods.get(name)
    return None if fn is None else canon(prog, ci, fn)


def _getstate_tables(prog: Program, ci: ClassInfo, rep: Report) -> None:
    gs, ss = _cm(prog, ci, "__getstate__"), _cm(prog, ci, "__setstate__")
    loc = Loc(ci.file, (gs or ss).lineno, ci.name)
    if gs is None or ss is None:
        rep.ob("R19.1-pair", False, loc, f"{ci.name}: __getstate__/__setstate__",
               "a class that customises pickling must define both directions")
        return
    removed = _removed_keys(gs, consts=lambda e: const_value(prog, ci, e))
    added = {t.slice.value for n in ast.walk(gs) if isinstance(n, ast.Assign) for t in n.targets
             if isinstance(t, ast.Subscript) and isinstance(t.slice, ast.Constant) and isinstance(t.value, ast.Name)}
    recreated = set()
    for n in ast.walk(ss):
        if isinstance(n, ast.Assign):
            for t in n.targets:
                if self_attr(t):
                    recreated.add(self_attr(t))
    # inherited part: super().__getstate__() / super().__setstate__()
    inh_removed: Set[str] = set()
    inh_recreated: Set[str] = set()
    for b in prog.mro(ci)[1:]:
        bg, bs = _cm(prog, b, "__getstate__"), _cm(prog, b, "__setstate__")
        if bg is not None:
            inh_removed |= _removed_keys(bg, consts=lambda e, b=b: const_value(prog, b, e))
        if bs is not None:
            inh_recreated |= {self_attr(t) for n in ast.walk(bs) if isinstance(n, ast.Assign) for t in n.targets if self_attr(t)}
    calls_super_s = any(isinstance(n, ast.Call) and isinstance(n.func, ast.Attribute) and n.func.attr == "__setstate__"
                        for n in ast.walk(ss))
    missing = {r for r in removed if r not in recreated}
    rep.ob("R19.1-removed-are-recreated", not missing, Loc(ci.file, ss.lineno, f"{ci.name}.__setstate__"),
           f"{ci.name}: removed {sorted(removed)} / recreated {sorted(recreated & (removed | inh_removed)) }",
           f"attributes {sorted(missing)} are removed from the pickled state but not re-created on unpickling")
    # keys consumed
    read = {n.slice.value for n in ast.walk(ss) if isinstance(n, ast.Subscript) and isinstance(n.slice, ast.Constant)
            and isinstance(n.slice.value, str) and isinstance(n.value, ast.Name) and isinstance(n.ctx, ast.Load)}
    read |= {n.args[0].value for n in ast.walk(ss) if isinstance(n, ast.Call) and isinstance(n.func, ast.Attribute)
             and n.func.attr in ("pop", "get") and isinstance(n.func.value, ast.Name) and n.args and isinstance(n.args[0], ast.Constant)
             and isinstance(n.args[0].value, str)}
    rep.ob("R19.1-added-are-consumed", added <= read, Loc(ci.file, ss.lineno, f"{ci.name}.__setstate__"),
           f"{ci.name}: extra keys {sorted(added)} / read {sorted(read)}",
           f"extra keys {sorted(added - read)} are put into the pickled state but never read back")
    rep.ob("R19.1-consumed-are-added", read <= (added | _inherited_added(prog, ci)), Loc(ci.file, ss.lineno, f"{ci.name}.__setstate__"),
           f"{ci.name}: reads {sorted(read)}", f"__setstate__ reads keys {sorted(read - added)} that __getstate__ never stores")
    # dict update present (own or via super)
    upd = any(isinstance(n, ast.Call) and norm(n.func) == "self.__dict__.update" for n in ast.walk(ss)) or calls_super_s
    rep.ob("R19.1-dict-restored", upd, Loc(ci.file, ss.lineno, f"{ci.name}.__setstate__"), f"{ci.name}: __dict__.update(state)",
           "the remaining attributes are not restored")
    # constructor-like calls agree with __init__
    init = prog.resolve_method(ci, "__init__")
    if init:
        def ctor_calls(fn):
            return {norm(n.func): norm(n) for n in ast.walk(fn) if isinstance(n, ast.Call) and norm(n.func).startswith("lib.construct")}
        a, b = ctor_calls(canon(prog, ci, init[1])), ctor_calls(ss)
        for f in sorted(set(a) & set(b)):
            rep.ob("R19.1-same-constructor-arguments", a[f] == b[f], Loc(ci.file, ss.lineno, f"{ci.name}.__setstate__"),
                   f"{b[f]}", f"__setstate__ rebuilds the C object with `{b[f]}` but __init__ built it with `{a[f]}`")
        for f in sorted(set(a) - set(b)):
            rep.ob("R19.1-same-constructor-arguments", False, Loc(ci.file, ss.lineno, f"{ci.name}.__setstate__"),
                   f"{f} missing", f"__init__ builds a C object with {f} but __setstate__ does not rebuild it")


def _inherited_added(prog: Program, ci: ClassInfo) -> Set[str]:
    out: Set[str] = set()
    for b in prog.mro(ci):
        bg = b.methods.get("__getstate__")
        if bg is not None:
            out |= {t.slice.value for n in ast.walk(bg) if isinstance(n, ast.Assign) for t in n.targets
                    if isinstance(t, ast.Subscript) and isinstance(t.slice, ast.Constant) and isinstance(t.value, ast.Name)}
    return out


def _is_cdata_value(v: ast.AST, aliases: Set[str]) -> bool:
    if isinstance(v, ast.Call):
        f = norm(v.func)
        if f.startswith("ffi.gc") or f.startswith("ffi.new") or f in aliases and f.startswith("_new"):
            return True
        if f in aliases and aliases:
            return f in {a for a in aliases if "new_handle" in a or a.startswith("_new")}
    return False


def check_cdata(prog: Program, rep: Report) -> None:
    n = 0
    for ci in prog.classes:
        mi = ci.module
        uses_ffi = any(t.endswith("._heap.ffi") or t.endswith(".ffi") or t.split(".")[-1] in ("ffi", "lib") for t in mi.imports.values())
        if not uses_ffi:
            continue
        handle_aliases = {name for name, val in mi.assigns.items() if (isinstance(val, ast.Attribute)
                          and norm(val) in ("ffi.new_handle", "ffi.gc", "ffi.new")) or
                          (isinstance(val, ast.Call) and norm(val.func).split(".")[-1] == "partial" and val.args
                           and norm(val.args[0]) in ("ffi.new_handle", "ffi.gc", "ffi.new"))}
        # module-level functions that hand back cffi data (every return value is ffi.gc / ffi.new / ffi.new_handle of something,
        # or the result of another such function)
        producers: set = set()
        for _ in range(3):
            for fname, f in mi.functions.items():
                rets = [r.value for r in ast.walk(f) if isinstance(r, ast.Return) and r.value is not None]
                RFn = Resolver(f)
                if rets and all(isinstance(RFn.res(v), ast.Call) and (norm(RFn.res(v).func) in ("ffi.gc", "ffi.new_handle", "ffi.new")
                                                                      or norm(RFn.res(v).func) in handle_aliases | producers) for v in rets):
                    producers.add(fname)
        handle_aliases = handle_aliases | producers
        # container classes of the module that create cffi data themselves (e.g. a dict subclass whose __missing__ makes the handle):
        # an attribute holding such a container holds cdata
        for c2 in mi.classes.values():
            if c2 is not ci and any(isinstance(x, ast.Call) and norm(x.func) in ({"ffi.gc", "ffi.new_handle", "ffi.new"} | handle_aliases)
                                    for m2 in c2.methods.values() for x in ast.walk(m2)):
                handle_aliases = handle_aliases | {c2.name}
        cattrs: Dict[str, ast.AST] = {}
        for m in [_cm(prog, ci, name) for name in ci.methods]:
            for a in ast.walk(m):
                if isinstance(a, ast.Assign):
                    v = a.value
                    is_c = isinstance(v, ast.Call) and (norm(v.func) in ("ffi.gc", "ffi.new_handle", "ffi.new") or norm(v.func) in handle_aliases)
                    for t in a.targets:
                        if self_attr(t) and is_c:
                            cattrs.setdefault(self_attr(t), a)
                        # dictionaries of handles: self._x[key] = _new_handle(...)
                        if isinstance(t, ast.Subscript) and self_attr(t.value) and is_c:
                            cattrs.setdefault(self_attr(t.value), a)
        if not cattrs:
            continue
        gs, ss = _cm(prog, ci, "__getstate__"), _cm(prog, ci, "__setstate__")
        removed = set()
        if gs is not None:
            removed = _removed_keys(gs, consts=lambda e: const_value(prog, ci, e))
        rebuilt = set()
        if ss is not None:
            rebuilt = {self_attr(t) for x in ast.walk(ss) if isinstance(x, ast.Assign) for t in x.targets if self_attr(t)}
        for attr, stmt in sorted(cattrs.items()):
            n += 1
            rep.ob("R19.2-cdata-not-pickled", attr in removed, Loc(ci.file, stmt.lineno, ci.name), f"{ci.name}.{attr}",
                   f"`{attr}` holds cffi data (handle / gc pointer) but is not removed in __getstate__: cdata cannot be "
                   f"pickled, or is pickled as a dangling handle")
            rep.ob("R19.2-cdata-rebuilt", attr in rebuilt, Loc(ci.file, stmt.lineno, ci.name), f"{ci.name}.{attr} rebuilt",
                   f"`{attr}` holds cffi data but is not rebuilt in __setstate__")
    rep.unit("cdata_attributes", n)


def check_pickle_hooks_faithful(prog: Program, rep: Report, rule: str) -> None:
    """
    The objects that travel in pickled form (in a dump, or through the pipes of the multi-process mediator) come back as they
    were: an attribute that `__getstate__` removes and `__setstate__` re-creates must not be one that can hold different values
    in the live object (re-creating it with ONE fixed value loses which one it was -- e.g. a strategy method that `__init__`
    chooses from its arguments).  cffi handles are covered by R19.1 / R19.2 (rebuilt from the constructor arguments).
    """
    for ci in prog.classes:
        if not ci.file.startswith("jellyfysh/base/"):
            continue
        gs, ss = ci.methods.get("__getstate__"), ci.methods.get("__setstate__")
        if gs is None or ss is None:
            continue
        removed = {k for k in _removed_keys(gs, consts=lambda e: const_value(prog, ci, e)) if isinstance(k, str)}
        for attr in sorted(removed):
            values = {norm(a.value) for m in ci.methods.values() if m is not ss for a in ast.walk(m) if isinstance(a, ast.Assign)
                      and any(self_attr(t) == attr for t in a.targets)}
            restored = [a for a in ast.walk(ss) if isinstance(a, ast.Assign) and any(self_attr(t) == attr for t in a.targets)]
            from_state = any(any(isinstance(x, ast.Name) and x.id in param_names(ss) for x in ast.walk(a.value)) for a in restored)
            ok = len(values) <= 1 or from_state or len(restored) > 1
            rep.ob(rule, ok, Loc(ci.file, ss.lineno, f"{ci.name}.__setstate__"), f"{ci.name}.{attr}: live values {sorted(values)[:3]}",
                   f"`{attr}` is dropped when a {ci.name} is pickled and re-created with one fixed value, although the live object can hold "
                   f"{len(values)} different ones ({sorted(values)[:3]}): an object sent through a pipe or written to a dump comes back changed")


def check_payload(prog: Program, rep: Report) -> None:
    dh = prog.class_named("DumpingOutputHandler")
    w = dh.methods.get("write")
    dumps = [n for n in ast.walk(w) if isinstance(n, ast.Call) and norm(n.func).endswith("dill.dump")] if w else []
    res = prog.modules.get("jellyfysh.resume")
    if res is None or not dumps:
        raise AnalysisError("dump / resume anchors not found")
    main = res.functions.get("main")

    def load_sites(fn: ast.AST) -> List[ast.Assign]:
        return [n for n in ast.walk(fn) if isinstance(n, ast.Assign) and isinstance(n.value, ast.Call) and norm(n.value.func).endswith("dill.load")]

    def unpacked(fn: ast.AST, target: ast.AST) -> ast.AST:
        """the tuple a name is unpacked into later in the same function (the name itself if it is not)"""
        if isinstance(target, ast.Name):
            unpack = [n for n in ast.walk(fn) if isinstance(n, ast.Assign) and isinstance(n.targets[0], (ast.Tuple, ast.List))
                      and isinstance(n.value, ast.Name) and n.value.id == target.id]
            if len(unpack) == 1:
                return unpack[0].targets[0]
        return target
    restore_fn, restore_at, returned_alias = main, None, None
    loads = load_sites(main)
    helper_loads = [(f, l) for f in res.functions.values() if f is not main for l in load_sites(f)]
    if len(loads) == 1:
        helper_loads = []       # the loading helper was read in place by the normal form: main holds the site
    if len(dumps) != 1 or len(loads) + len(helper_loads) != 1:
        raise AnalysisError("dill.dump / dill.load sites not unique")
    # the dumped object may be bound to a local before the dump, the loaded one before it is unpacked
    payload = Resolver(w).res(dumps[0].args[0])
    if loads:
        target = unpacked(main, loads[0].targets[0])
    else:
        # the file is read by a module-level helper that hands the loaded items back: follow them through its return value to
        # the place where the caller unpacks them
        hf, hl = helper_loads[0]
        loads = [hl]
        inner = unpacked(hf, hl.targets[0])
        rets = [r for r in ast.walk(hf) if isinstance(r, ast.Return) and r.value is not None]
        calls = [n for n in ast.walk(main) if isinstance(n, ast.Assign) and isinstance(n.value, ast.Call) and norm(n.value.func) == hf.name]
        target = None
        if len(rets) == 1 and len(calls) == 1:
            outer = unpacked(main, calls[0].targets[0])
            rv = rets[0].value
            if isinstance(rv, ast.Name) and isinstance(hl.targets[0], ast.Name) and rv.id == hl.targets[0].id:
                target = outer                      # the loaded list itself is returned
            elif isinstance(rv, ast.Tuple) and isinstance(inner, (ast.Tuple, ast.List)) and isinstance(outer, (ast.Tuple, ast.List)) \
                    and len(rv.elts) == len(outer.elts):
                inner_names = [norm(x) for x in inner.elts]
                # position j of the caller's tuple receives item inner_names.index(returned name j) of the payload
                order_ = [inner_names.index(norm(x)) if norm(x) in inner_names else None for x in rv.elts]
                if None not in order_ and sorted(order_) == list(range(len(inner_names))):
                    elts = [None] * len(order_)
                    for j, i in enumerate(order_):
                        elts[i] = outer.elts[j]
                    target = ast.Tuple(elts=elts, ctx=ast.Store())
            elif isinstance(rv, ast.Name) and isinstance(inner, (ast.Tuple, ast.List)) and rv.id in [norm(x) for x in inner.elts] \
                    and isinstance(calls[0].targets[0], ast.Name):
                # the helper restores the modules and the generator itself and hands back one item (the mediator): the restoring
                # statements are read in the helper, at the position of its call; the returned item is known in main by the call's target
                target = inner
                restore_fn, restore_at, returned_alias = hf, calls[0].lineno, (calls[0].targets[0].id, rv.id)
        if target is None:
            target = ast.Name(id="?", ctx=ast.Store())
    loc = Loc(res.file, loads[0].lineno, "resume.main")
    if not isinstance(payload, (ast.List, ast.Tuple)) or not isinstance(target, ast.Tuple):
        rep.ob("R19.3-payload-arity", None, loc, "payload", "payload / unpack idiom not recognised")
        return
    rep.ob("R19.3-payload-arity", len(payload.elts) == len(target.elts), loc,
           f"dump {norm(payload)} / load {norm(target)}", "the dumped list and the unpacked tuple differ in length")

    def role_dump(e: ast.AST) -> str:
        t = norm(e)
        if t in param_names(w):
            return "mediator"
        if t.endswith("random.getstate()"):
            return "random"
        return t  # module names: setting, uuid

    names = [norm(t) for t in target.elts]
    uses: Dict[str, str] = {}
    run_line = None
    order: List[Tuple[int, str]] = []
    for n in ast.walk(main):
        if isinstance(n, ast.Call):
            f = norm(n.func)
            for nm in names:
                alias = returned_alias[0] if returned_alias is not None and returned_alias[1] == nm else nm
                if f == f"{alias}.run":
                    uses[nm] = "mediator"
                    run_line = n.lineno
    for n in ast.walk(restore_fn):
        if isinstance(n, ast.Call):
            f = norm(n.func)
            at_line = restore_at if restore_at is not None else n.lineno
            for nm in names:
                if f == "random.setstate" and n.args and norm(n.args[0]) == nm:
                    uses[nm] = "random"
                    order.append((at_line, "random"))
                if f.endswith(".__dict__.update") and n.args and norm(n.args[0]) == f"{nm}.__dict__":
                    uses[nm] = f.split(".")[0]
                    order.append((at_line, f.split(".")[0]))
    for i, (e, nm) in enumerate(zip(payload.elts, names)):
        rd, ru = role_dump(e), uses.get(nm)
        rep.ob("R19.3-payload-order", rd == ru, loc, f"item {i}: dumped `{norm(e)}` restored as `{ru}` via `{nm}`",
               f"item {i} of the dump is `{norm(e)}` but resume treats it as `{ru}`")
    for what in ("setting", "uuid", "random"):
        lines = [l for l, k in order if k == what]
        rep.ob("R19.3-restored-before-run", bool(lines) and run_line is not None and max(lines) < run_line, loc,
               f"{what} restored before mediator.run()", f"`{what}` is not restored before the run continues")


def check_rng(prog: Program, rep: Report) -> None:
    n_draws = 0
    for mi in prog.modules.values():
        for imp_local, target in mi.imports.items():
            bad = target.split(".")[0] in ("secrets",) or target.startswith("numpy.random") or target == "os.urandom"
            if bad:
                rep.ob("R19.4-rng-source", False, Loc(mi.file, 1, mi.name), f"import {target}",
                       "a random source outside the module-level `random` generator is not part of the dump payload")
        random_names = {l for l, t in mi.imports.items() if t == "random"}
        from_random = {l for l, t in mi.imports.items() if t.startswith("random.")}
        call_funcs = {id(n.func) for n in ast.walk(mi.tree) if isinstance(n, ast.Call)}
        for n in ast.walk(mi.tree):
            if isinstance(n, ast.Attribute) and isinstance(n.value, ast.Name) and n.value.id in random_names \
                    and isinstance(n.ctx, ast.Load) and id(n) not in call_funcs:
                rep.ob("R19.4-rng-not-captured", False, Loc(mi.file, n.lineno, mi.name), n,
                       "a function of the `random` module is stored instead of called: it is a bound method of the hidden generator "
                       "object, so an object keeping it (attribute, partial, default argument) pickles a private copy of the "
                       "generator; after resume that copy is not the one restored by random.setstate and two streams run apart")
        for n in ast.walk(mi.tree):
            if isinstance(n, ast.Call):
                f = norm(n.func)
                head = f.split(".")[0]
                if head in random_names:
                    fn = f.split(".", 1)[1] if "." in f else ""
                    n_draws += 1
                    ok = fn not in ("Random", "SystemRandom", "seed")
                    if fn in ("getstate", "setstate"):
                        ok = mi.file in ("jellyfysh/resume.py", "jellyfysh/input_output_handler/output_handler/dumping_output_handler.py")
                    rep.ob("R19.4-rng-source", ok, Loc(mi.file, n.lineno, mi.name), n,
                           "stochastic draws must use the module-level `random` functions (whose state is dumped); a private "
                           "generator, a re-seed or a foreign state change breaks the continuation of the stream",
                           nontrivial=False)
                elif isinstance(n.func, ast.Name) and n.func.id in from_random:
                    n_draws += 1
                    ok = mi.imports[n.func.id] not in ("random.Random", "random.SystemRandom", "random.seed")
                    rep.ob("R19.4-rng-source", ok, Loc(mi.file, n.lineno, mi.name), n,
                           "stochastic draws must use the module-level `random` functions", nontrivial=False)
                if f in ("os.urandom", "uuid.uuid4", "time.time", "time.time_ns") and f != "time.time":
                    ok = mi.file == "jellyfysh/base/uuid.py"
                    rep.ob("R19.4-entropy-source", ok, Loc(mi.file, n.lineno, mi.name), n,
                           "fresh entropy outside base/uuid.py (whose value is dumped) makes the resumed run differ")
    rep.unit("random_call_sites", n_draws)
    rep.ob("R19.4-rng-not-captured", True, Loc("jellyfysh", 0, ""), "no stored reference to a function of the random module", "",
           nontrivial=False)
    # set iteration inventory
    set_returning = {"_get_bases_names"}
    for mi0, ci0, fn0 in prog.functions():
        if fn0.returns is not None and ("Set[" in norm(fn0.returns) or norm(fn0.returns) in ("set", "Set", "frozenset")):
            set_returning.add(fn0.name)
    rep.extra["set_returning_functions"] = sorted(set_returning)
    for mi, ci, fn in prog.functions():
        set_attrs = set()
        if ci is not None:
            for m in ci.methods.values():
                for a in ast.walk(m):
                    if isinstance(a, ast.Assign) and self_attr(a.targets[0]):
                        v = a.value
                        if (isinstance(v, ast.Call) and norm(v.func) == "set") or isinstance(v, (ast.Set, ast.SetComp)) \
                                or (isinstance(v, ast.DictComp) and isinstance(v.value, ast.Call) and norm(v.value.func) == "set"):
                            set_attrs.add(self_attr(a.targets[0]))
        local_sets = {a.targets[0].id for a in ast.walk(fn) if isinstance(a, ast.Assign) and isinstance(a.targets[0], ast.Name)
                      and ((isinstance(a.value, ast.Call) and norm(a.value.func) == "set") or isinstance(a.value, (ast.Set, ast.SetComp)))}
        set_funcs = set_returning

        def is_set_expr(e: ast.AST) -> bool:
            if isinstance(e, (ast.Set, ast.SetComp)):
                return True
            if isinstance(e, ast.Call) and norm(e.func) in ("set", "frozenset"):
                return True
            if isinstance(e, ast.Call) and norm(e.func).split(".")[-1] in set_funcs:
                return True
            if isinstance(e, ast.Name) and e.id in local_sets:
                return True
            if self_attr(e) in set_attrs:
                return True
            if isinstance(e, ast.Subscript) and self_attr(e.value) in set_attrs:
                return True
            return False

        iters = []
        for n in ast.walk(fn):
            if isinstance(n, ast.For) and is_set_expr(n.iter):
                iters.append(n.iter)
            if isinstance(n, ast.comprehension) and is_set_expr(n.iter):
                iters.append(n.iter)
            if isinstance(n, ast.YieldFrom) and is_set_expr(n.value):
                iters.append(n.value)
        for it in iters:
            key = (ci.name if ci else "", fn.name)
            confirmed = key in SET_ITERATION_OK
            if not confirmed:
                # the same iteration moved into a helper: confirmed when the iterated set comes from a confirmed producer, or when
                # the helper is only called from confirmed sites of the same module
                src_ = it
                if isinstance(src_, ast.Name):
                    defs_ = [a.value for a in ast.walk(fn) if isinstance(a, ast.Assign) and len(a.targets) == 1
                             and isinstance(a.targets[0], ast.Name) and a.targets[0].id == src_.id]
                    src_ = defs_[0] if len(defs_) == 1 else src_
                if isinstance(src_, ast.Call) and ("", norm(src_.func).split(".")[-1]) in SET_ITERATION_OK:
                    confirmed = True
                else:
                    callers = [(c2.name if c2 else "", f2.name) for m2, c2, f2 in prog.functions() if m2 is mi and f2 is not fn
                               and any(isinstance(x, ast.Call) and norm(x.func).split(".")[-1] == fn.name for x in ast.walk(f2))]
                    confirmed = bool(callers) and all(k_ in SET_ITERATION_OK for k_ in callers)
            rep.ob("R19.4-set-iteration", confirmed, Loc(mi.file, it.lineno, f"{key[0]}.{fn.name}".strip(".")), it,
                   "iteration over a set: for strings or identity-hashed objects the order differs between the dumping and "
                   "the resuming process (hash randomisation / addresses) and can reach the commit path; this site is not "
                   "among the sites confirmed as order-insensitive or int-keyed")


def check_globals(prog: Program, rep: Report) -> None:
    for mi in prog.modules.values():
        for fn in [n for n in ast.walk(mi.tree) if isinstance(n, ast.FunctionDef)]:
            declared = set()
            for n in ast.walk(fn):
                if isinstance(n, ast.Global):
                    declared.update(n.names)
            for name in sorted(declared):
                assigned = any(isinstance(n, (ast.Assign, ast.AugAssign)) and any(
                    isinstance(t, ast.Name) and t.id == name for t in (n.targets if isinstance(n, ast.Assign) else [n.target]))
                    for n in ast.walk(fn))
                if not assigned:
                    continue
                ok = any(mi.file.startswith(p) for p in GLOBAL_OK_PREFIXES) or (mi.file, name) in GLOBAL_OK_NAMES
                rep.ob("R19.5-global-state-in-payload", ok, Loc(mi.file, fn.lineno, fn.name), f"global {name} in {fn.name}",
                       f"module-level state `{name}` is assigned at run time but the module is neither part of the dump payload "
                       f"nor in the list of construction-time-only globals: a resumed process would start with a different value",
                       nontrivial=False)
        # module-level mutable containers mutated from functions (append etc.)
        for name, val in mi.assigns.items():
            if isinstance(val, (ast.List, ast.Dict, ast.Set)) and not name.startswith("__") and name != "__all__":
                mutated = [n for fn in ast.walk(mi.tree) if isinstance(fn, ast.FunctionDef) for n in ast.walk(fn)
                           if isinstance(n, ast.Call) and isinstance(n.func, ast.Attribute) and isinstance(n.func.value, ast.Name)
                           and n.func.value.id == name and n.func.attr in ("append", "add", "update", "extend", "pop", "clear", "remove")]
                if mutated:
                    ok = any(mi.file.startswith(p) for p in GLOBAL_OK_PREFIXES) or (mi.file, name) in GLOBAL_OK_NAMES
                    rep.ob("R19.5-global-state-in-payload", ok, Loc(mi.file, mutated[0].lineno, name), f"module container {name}",
                           f"module-level container `{name}` is mutated at run time and is not part of the dump payload")


def check_dumping_pure(prog: Program, rep: Report) -> None:
    for h in concrete_handlers(prog):
        if not prog.is_subclass(h, "DumpingEventHandler"):
            continue
        facts = HandlerFacts(prog, h)
        loc = Loc(h.file, h.node.lineno, h.name)
        refs = facts.time_closure + facts.out_closure
        rng = [n for r in refs for n in ast.walk(r.fn) if isinstance(n, ast.Call) and norm(n.func).startswith("random.")]
        writes = [s for r in refs for s, *_ in stores(r.fn)]
        rep.ob("R19.6-dumping-no-rng", not rng, loc, f"{h.name}: no random draws", "a dumping event must not consume random numbers")
        rep.ob("R19.6-dumping-no-state-change", not writes and not facts.changes_trajectory, loc, f"{h.name}: no unit writes",
               "a dumping event must not change any unit")
        for ref in facts.send_out_state:
            rets = [n for n in ast.walk(ref.fn) if isinstance(n, ast.Return)]
            ok = bool(rets) and all(isinstance(r.value, (ast.List, ast.Tuple)) and not r.value.elts for r in rets)
            rep.ob("R19.6-dumping-empty-out-state", ok, Loc(ref.file, ref.fn.lineno, ref.qual), "returns []",
                   "the out-state of a dumping event must be empty (nothing is inserted into the global state)")
    # ... nor does writing the dump itself: a draw between taking random.getstate() and continuing the run (a random file suffix, a
    # shuffled order) puts the continuing run ahead of the state stored in the dump
    doh = prog.class_named("DumpingOutputHandler")
    if doh is not None:
        from ..handlers import FnRef, closure
        for ref in closure(prog, doh, [FnRef(*prog.resolve_method(doh, "write"))]) if prog.resolve_method(doh, "write") else []:
            draws = [n for n in ast.walk(ref.fn) if isinstance(n, ast.Call) and norm(n.func).startswith("random.")
                     and norm(n.func) not in ("random.getstate",)]
            rep.ob("R19.6-dump-write-no-rng", not draws, Loc(ref.file, draws[0].lineno if draws else ref.fn.lineno, ref.qual),
                   draws[0] if draws else f"{ref.qual}: reads the generator state only",
                   "writing the dump consumes random numbers: the run that continues after the dump and the run resumed from it use "
                   "different streams")
    med = prog.class_named("Mediator")
    fn = med.methods.get("mediate_dumping_event_handler")
    if fn is None:
        rep.ob("R19.6-mediate-dumping", None, Loc(med.file, med.node.lineno, med.name), "mediate_dumping_event_handler", "not found")
    else:
        from ..normalize import canon as _canon
        body = body_without_docstring(_canon(prog, med, fn))       # a delegated write is still this method's write
        ok = len(body) == 1 and isinstance(body[0], ast.Expr) and isinstance(body[0].value, ast.Call) \
            and norm(body[0].value.func).endswith("_input_output_handler.write") and len(body[0].value.args) == 2 \
            and norm(body[0].value.args[1]) == "self" and norm(body[0].value.args[0]).endswith(".output_handler")
        rep.ob("R19.6-mediate-dumping", ok, Loc(med.file, fn.lineno, f"Mediator.{fn.name}"), body[0] if body else fn.name,
               "the dumping mediating method must do nothing but hand the mediator to the dumping output handler")


def analyse(src: Source) -> List[Report]:
    rep = Report(ID, src)
    rep.explain(
        "R19.1: for every class with custom pickling the attributes removed in __getstate__ are re-created in __setstate__, "
        "extra keys are consumed, __dict__ is restored and C constructors are called with the arguments of __init__. R19.2: "
        "every instance attribute holding cffi data (ffi.gc pointer, handle, dict of handles) is removed and rebuilt. R19.3: "
        "the list dumped by DumpingOutputHandler.write and the tuple unpacked in resume.main agree in arity and role order "
        "(mediator, setting, uuid, RNG state) and each is restored before mediator.run(). R19.4: every stochastic draw goes "
        "through module-level `random` functions; no private generators, re-seeding or foreign entropy; every iteration "
        "over a set is one of the sites confirmed as int-keyed or order-insensitive. R19.5: module-level state assigned at "
        "run time lives in the setting family or base/uuid (both in the payload) or is construction-time only. R19.6: "
        "dumping handlers draw no random numbers, write no unit, return an empty out-state; in every .ini the dumping "
        "tagger creates and trashes only itself. Not decided: bit-equality of the resumed trajectory.")
    prog = Program(src)
    classes = [c for c in prog.classes if "__getstate__" in c.methods or "__setstate__" in c.methods]
    rep.unit("classes_with_custom_pickling", len(classes))
    for ci in classes:
        _getstate_tables(prog, ci, rep)
    check_cdata(prog, rep)
    check_payload(prog, rep)
    check_pickle_hooks_faithful(prog, rep, "R19.1-pickle-hooks-faithful")
    check_rng(prog, rep)
    check_globals(prog, rep)
    check_dumping_pure(prog, rep)
    # scheduler contents including the validity of trashed entries survive the pickle (rules shared with C06)
    from ..cfront import CUnit
    from .c06 import HEAP_C, check_c_comparisons, check_heap_scheduler
    check_heap_scheduler(src, rep, CUnit(src, HEAP_C))
    # the dump stores the heap in array order and the resume re-inserts in that order: the array is reproduced only because every
    # comparison of the sift loops is the strict order (an entry never passes an equal one)
    check_c_comparisons(CUnit(src, HEAP_C), rep)
    cfgs = load_all(prog)
    cache: Dict[str, HandlerFacts] = {}
    n_dump = 0
    for cfg in cfgs:
        g = ConfigGraph(prog, cfg, cache)
        for t in g.taggers:
            if t.handler_cls is not None and prog.is_subclass(t.handler_cls, "DumpingEventHandler"):
                n_dump += 1
                rep.ob("R19.6-dumping-tagger-isolated", t.create == [t.tag] and t.trash == [t.tag] and not t.activate
                       and not t.deactivate, g.loc(t), f"{t.tag}: create {t.create} trash {t.trash}",
                       "the dumping tagger must create and trash only itself: a run that writes dumps commits, apart from the "
                       "dumping events, exactly the events of the run without dumping")
                for o in g.taggers:
                    if o is t or (o.facts and (o.facts.one_shot or o.facts.ends_run)):
                        continue
                    rep.ob("R19.6-dumping-tagger-isolated", t.tag not in o.create and t.tag not in o.trash, g.loc(o),
                           f"{o.tag} does not touch {t.tag}", f"`{o.tag}` creates or trashes the dumping tagger `{t.tag}`")
    rep.unit("dumping_taggers", n_dump)
    rep.expect_min("R19.1-removed-are-recreated", 4)
    rep.expect_min("R19.2-cdata-not-pickled", 4)
    rep.expect_min("R19.3-payload-order", 4)
    rep.expect_min("R19.4-rng-source", 20)
    rep.expect_min("R19.4-set-iteration", 3)
    rep.expect_min("R19.5-global-state-in-payload", 10)
    rep.expect_min("R19.6-dumping-empty-out-state", 1)
    rep.expect_min("R19.6-dumping-tagger-isolated", 1)
    return [rep]


HS = "jellyfysh/scheduler/heap_scheduler/heap_scheduler.py"
MI = "jellyfysh/potential/merged_image_coulomb_potential/merged_image_coulomb_potential.py"
DO = "jellyfysh/input_output_handler/output_handler/dumping_output_handler.py"
MUTANTS = [
    Edit("walker keeps bound samplers", "jellyfysh/event_handler/walker.py",
         r"(class Walker\(object\):(?:.*?\n)*?    def __init__\(self[^\n]*\n(?:        [^\n]*\n|\n)*?)(        self\._)",
         r"\1        self._draw = random.uniform\n\2", "R19.4-rng-not-captured", regex=True),
    Edit("excluded cells tagger iterates the raw set of cells (the repaired defect)", "jellyfysh/activator/tagger/excluded_cells_tagger.py",
         "for nearby_cell in sorted(self._internal_state.cells.nearby_cells(active_cell),\n"
         "                                                  key=lambda cell: cell.identifier)",
         "for nearby_cell in self._internal_state.cells.nearby_cells(active_cell)", "R19.4-set-iteration"),
    Edit("heap scheduler keeps the handle table in the pickle", HS, "        del state[\"_event_handler_handles\"]\n", "", "R19.2"),
    Edit("heap scheduler does not rebuild the scheduler handle", HS,
         "        self._scheduler_handle = _new_handle(self)\n", "", "R19", nth=1),
    Edit("payload order swapped", DO, "dill.dump([mediator, setting, uuid, random.getstate()], file)",
         "dill.dump([mediator, uuid, setting, random.getstate()], file)", "R19.3"),
    Edit("payload without the RNG state", DO, "dill.dump([mediator, setting, uuid, random.getstate()], file)",
         "dill.dump([mediator, setting, uuid], file)", "R19.3"),
    Edit("resume forgets the RNG state", "jellyfysh/resume.py", "    random.setstate(dumped_random_state)\n", "", "R19.3"),
    Edit("coulomb potential rebuilt with swapped cutoffs", MI,
         "        self.__dict__.update(state)\n        c_potential = lib.construct_merged_image_coulomb_potential(self._fourier_cutoff, self._position_cutoff,",
         "        self.__dict__.update(state)\n        c_potential = lib.construct_merged_image_coulomb_potential(self._position_cutoff, self._fourier_cutoff,",
         "R19.1"),
    Edit("private generator in an event handler", "jellyfysh/event_handler/abstracts/event_handler_with_bounding_potential.py",
         "            if random.uniform(0, self._bounding_event_rate) < real_derivative:",
         "            if random.Random().uniform(0, self._bounding_event_rate) < real_derivative:", "R19.4"),
    Edit("dumping tagger trashes coulomb", "jellyfysh/config_files/2018_JCP_149_064113/coulomb_atoms/power_bounded_dump.ini",
         "[Dumping]\ncreate = dumping\ntrash = dumping", "[Dumping]\ncreate = dumping\ntrash = dumping, coulomb", "R19.6"),
    Edit("dumping handler draws a random number", "jellyfysh/event_handler/fixed_interval_dumping_event_handler.py",
         "        self._event_time += self._dumping_interval\n",
         "        self._event_time += self._dumping_interval * (1.0 + 0.0 * random.random())\n", "R19"),
    Edit("new module-level cache", "jellyfysh/lifting/lifting.py",
         r"(class Lifting\()", r"_calls = []\n\n\ndef _note(x):\n    global _last\n    _last = x\n    _calls.append(x)\n\n\n\1", "R19.5", regex=True),
    Edit("iteration over a set of handler objects", "jellyfysh/activator/tag_activator.py",
         "        for tagger in self._create_taggers[preceding_event_tagger]:",
         "        for tagger in set(self._create_taggers[preceding_event_tagger]):", "R19.4"),
]
TWINS = [
    Edit("state dict by comprehension", MI, "        state = self.__dict__.copy()\n        del state[\"_potential\"]\n        return state",
         "        state = {key: value for key, value in self.__dict__.items()}\n        del state[\"_potential\"]\n        return state"),
    Edit("payload as tuple", DO, "dill.dump([mediator, setting, uuid, random.getstate()], file)",
         "dill.dump((mediator, setting, uuid, random.getstate()), file)"),
]
