"""
C18 -- cell-veto proposals pick target cells exactly in proportion to their bound rates.

Decided: R18.1 total / mean rate dataflow of the alias table; R18.2 row construction: every two-entry row is
(small, (large.item, mean - small.rate)) and exactly that mass is removed from the large item, refiled by comparison with
the mean; one-entry rows carry the mean; both remainders are flushed; R18.3 sampling = uniform row, one coin
uniform(0, mean) vs row[0].rate choosing row[0] else row[1]; R18.4 in the cell-veto handler the candidate time is
Exp(beta) / (total rate x charge factor x speed), walker and bound index are chosen by the same charge-sign branch, the
bound is read at the sampled cell and direction, upper/lower walkers are built from bound components 0/1 clipped at 0.
Not decided: exactness of the alias table for concrete rate vectors (floats), zero-rate cells at the boundary draw 0.0.
"""
import ast
from typing import Dict, List, Optional, Tuple

from ..core import IdiomNotRecognised, AnalysisError, Loc, Report, Source, norm
from ..pyfront import Program, body_without_docstring, const_value, param_names, self_attr
from ..guards import atoms
from ..normalize import canon, flat
from ..resolve import Resolver, split_atom
from ..selftest import Edit

ID = "C18"
W = "jellyfysh/event_handler/walker.py"
CV = "jellyfysh/event_handler/abstracts/cell_veto_event_handler.py"


def _replace(root: ast.AST, target: ast.AST, by: ast.AST) -> ast.AST:
    """copy of root with the node `target` replaced by `by`"""
    import copy as _copy
    if root is target:
        return _copy.deepcopy(by)
    new = _copy.copy(root)
    for field, value in ast.iter_fields(root):
        if isinstance(value, list):
            setattr(new, field, [_replace(v, target, by) if isinstance(v, ast.AST) else v for v in value])
        elif isinstance(value, ast.AST):
            setattr(new, field, _replace(value, target, by))
    return new


def analyse(src: Source) -> List[Report]:
    rep = Report(ID, src)
    rep.explain(
        "R18.1: total = sum of the item rates, mean = total / number of items, total_rate returns the stored total. R18.2: "
        "items are split by `rate > mean`; the pairing loop pops one small and one large item, appends the row (small, "
        "WalkerItem(large.item, mean - small.rate)) and subtracts the very same expression from the large item's rate (mass "
        "moved = mass removed), then refiles the large item by comparison with the mean; the two flush loops append one-entry "
        "rows with rate mean until both lists are empty. R18.3: sample = random.choice(table) followed by one coin "
        "uniform(0, mean) <= row[0].rate selecting row[0].item else row[1].item. R18.4: cell-veto candidate time = "
        "expovariate(beta) / (walker.total_rate * charge factor * speed); the walker (upper/lower) and the bound index (0/1) are "
        "selected in the same branch on the sign of the charge factor; the confirmation bound is "
        "bounds[sampled cell][direction][index] * charge factor; the walkers are built per direction from bound component 0 "
        "(upper) and 1 (lower), clipped at 0. Not decided: exactness on concrete float vectors.")
    prog = Program(src)
    wk = prog.class_named("Walker")
    if not all(m in wk.methods for m in ("__init__", "sample_cell")):
        raise AnalysisError("Walker methods not found")
    # all rules read canonical forms (private helpers inlined, guards nested, locals propagated) and compare expressions after
    # resolving single-assignment locals: no rule depends on a variable name or on how a test is written
    init = canon(prog, wk, wk.methods["__init__"])
    sample = canon(prog, wk, wk.methods["sample_cell"])
    items = param_names(init)[0]
    R = Resolver(init)
    # ---- R18.1 -------------------------------------------------------------------------------------------------------
    assigns = {}
    for n in ast.walk(init):
        if isinstance(n, ast.Assign) and self_attr(n.targets[0]) and self_attr(n.targets[0]) not in assigns:
            assigns[self_attr(n.targets[0])] = n

    def is_rate_sum(e: ast.AST) -> bool:
        e = R.res(e)
        if isinstance(e, ast.Call) and norm(e.func) in ("sum", "math.fsum", "fsum") and len(e.args) == 1 \
                and isinstance(e.args[0], (ast.GeneratorExp, ast.ListComp)):
            g = e.args[0]
            return len(g.generators) == 1 and not g.generators[0].ifs and norm(g.generators[0].iter) == items \
                and isinstance(g.elt, ast.Attribute) and g.elt.attr == "rate" and norm(g.elt.value) == norm(g.generators[0].target)
        return False
    total_attr = next((a for a, n in assigns.items() if is_rate_sum(n.value)), None)
    table_attr = next((a for a, n in assigns.items() if isinstance(n.value, ast.List) and not n.value.elts), None)
    mean_attr = None
    for a, n in assigns.items():
        v = R.res(n.value)
        if isinstance(v, ast.BinOp) and isinstance(v.op, ast.Div) and norm(v.right) == f"len({items})" \
                and (self_attr(v.left) == total_attr or is_rate_sum(v.left)):
            mean_attr = a
    loc = Loc(W, init.lineno, "Walker.__init__")
    rep.ob("R18.1-total-is-sum", total_attr is not None, loc, assigns[total_attr] if total_attr else "total", "the total rate must be the sum of the item rates")
    rep.ob("R18.1-mean-is-total-over-n", mean_attr is not None, loc, assigns[mean_attr] if mean_attr else "mean", "the mean rate must be total / number of items")
    # the accessor of the total (a property or a plain method without arguments): a public routine whose every return is the stored total
    accessors = [m for m in wk.methods.values() if not m.name.startswith("_") and len(param_names(m)) == 0
                 and any(isinstance(r, ast.Return) for r in ast.walk(m))
                 and all(self_attr(r.value) == total_attr for r in ast.walk(m) if isinstance(r, ast.Return))]
    ok = bool(accessors)
    total_accessors = {m.name for m in accessors}
    rep.ob("R18.1-total-rate-property", ok, Loc(W, wk.node.lineno, "Walker.total_rate"), "total_rate returns the stored total",
           "the reported total must equal the sum of the rates")
    if not (total_attr and mean_attr and table_attr):
        return [rep]
    mean = f"self.{mean_attr}"
    # ---- R18.2 -------------------------------------------------------------------------------------------------------
    build = init
    locb = Loc(W, init.lineno, "Walker.__init__ / table construction")
    if not any(isinstance(n, ast.While) for n in ast.walk(init)):
        cands = [canon(prog, wk, m) for m in wk.methods.values() if any(isinstance(n, ast.While) for n in ast.walk(m))]
        if len(cands) == 1:
            build = cands[0]
            locb = Loc(W, build.lineno, f"Walker.{build.name}")
    RB = Resolver(build)
    split = [n for n in ast.walk(build) if isinstance(n, ast.For) and any(isinstance(x, ast.If) for x in n.body)
             and any(isinstance(c, ast.Call) and isinstance(c.func, ast.Attribute) and c.func.attr == "append" for c in ast.walk(n))]
    loops = [n for n in ast.walk(build) if isinstance(n, ast.While)]
    small = large = None

    def appended_list(stmts, what: str) -> Optional[str]:
        hits = [norm(c.func.value) for st in stmts for c in ast.walk(st) if isinstance(c, ast.Call) and isinstance(c.func, ast.Attribute)
                and c.func.attr == "append" and isinstance(c.func.value, ast.Name) and c.args and norm(c.args[0]) == what]
        return hits[0] if len(hits) == 1 else None
    split_test = None

    def classify(test: ast.AST, v: str) -> Optional[str]:
        at = atoms(RB.res(test, (v,)))
        sp = split_atom(at[0]) if len(at) == 1 else None
        if sp is None:
            return None
        l, op, r = sp
        if (l, r) == (mean, f"{v}.rate") and op == "<":        # mean < rate
            return "large"
        if (l, r) == (f"{v}.rate", mean) and op == "<=":       # rate <= mean
            return "small"
        return None
    for lp in split:
        v = norm(lp.target)
        for t in [x for x in lp.body if isinstance(x, ast.If)]:
            k = classify(t.test, v)
            if k == "large":
                large, small, split_test = appended_list(t.body, v), appended_list(t.orelse, v), t.test
            elif k == "small":
                small, large, split_test = appended_list(t.body, v), appended_list(t.orelse, v), t.test
    if not (small and large):
        # two filtering comprehensions over the items: [x for x in items if <large test>] / [... if <small test>]
        for a_ in ast.walk(build):
            if isinstance(a_, ast.Assign) and isinstance(a_.targets[0], ast.Name) and isinstance(a_.value, ast.ListComp) \
                    and len(a_.value.generators) == 1 and len(a_.value.generators[0].ifs) == 1 \
                    and norm(a_.value.elt) == norm(a_.value.generators[0].target):
                g_ = a_.value.generators[0]
                k = classify(g_.ifs[0], norm(g_.target))
                if k == "large":
                    large, split_test = a_.targets[0].id, g_.ifs[0]
                elif k == "small":
                    small = a_.targets[0].id
    rep.ob("R18.2-split-by-mean", bool(small and large), locb, split_test if split_test is not None else "split",
           "items must be split into those above the mean rate (large) and the others (small)")
    if not (small and large):
        return [rep]

    def mentions(e: ast.AST, name: str) -> bool:
        return any(isinstance(x, ast.Name) and x.id == name for x in ast.walk(e))
    pair = [l for l in loops if mentions(l.test, small) and mentions(l.test, large)]
    flush = [l for l in loops if l not in pair]
    okp = False
    if len(pair) == 1:
        pb = flat(pair[0].body)
        pops = {norm(s_.value.func.value): norm(s_.targets[0]) for s_ in pb if isinstance(s_, ast.Assign) and isinstance(s_.value, ast.Call)
                and isinstance(s_.value.func, ast.Attribute) and s_.value.func.attr == "pop" and not s_.value.args}
        s_it, l_it = pops.get(small), pops.get(large)
        keep = tuple(x for x in (s_it, l_it) if x)
        moved = f"{mean} - {s_it}.rate"
        apps = [c for st in pb for c in ast.walk(st) if isinstance(c, ast.Call) and norm(c.func) == f"self.{table_attr}.append"]
        subs = [s_ for s_ in pb if isinstance(s_, ast.AugAssign) and isinstance(s_.op, ast.Sub) and norm(s_.target) == f"{l_it}.rate"]
        row_ok = False
        if len(apps) == 1 and apps[0].args:
            row = RB.res(apps[0].args[0], keep)
            if isinstance(row, ast.Tuple) and len(row.elts) == 2 and norm(row.elts[0]) == s_it and isinstance(row.elts[1], ast.Call) \
                    and len(row.elts[1].args) == 2:
                row_ok = norm(row.elts[1].args[0]) == f"{l_it}.item" and norm(row.elts[1].args[1]) == moved
        sub_ok = len(subs) == 1 and RB.text(subs[0].value, keep) == moved
        rep.ob("R18.2-row-shape", row_ok, Loc(W, pair[0].lineno, locb.qual), apps[0] if apps else "row",
               "a two-entry row must be (small item, (large item's cell, mean - small rate)): the small item fills its share of the "
               "row, the large one the rest")
        rep.ob("R18.2-mass-conserved", sub_ok, Loc(W, pair[0].lineno, locb.qual), subs[0] if subs else "subtraction",
               "exactly the mass put into the row (mean - small rate) must be removed from the large item")
        refile = [s_ for s_ in pb if isinstance(s_, ast.If)]
        ref_ok = False
        if len(refile) == 1:
            at = atoms(refile[0].test)
            sp = split_atom(at[0]) if len(at) == 1 else None
            b_, o_ = appended_list(refile[0].body, l_it), appended_list(refile[0].orelse, l_it)
            if sp is not None:
                l, op, r = sp
                if (l, r) == (f"{l_it}.rate", mean) and op in ("<", "<="):      # rate < mean: body = small
                    ref_ok = b_ == small and o_ == large
                elif (l, r) == (mean, f"{l_it}.rate") and op in ("<", "<="):    # mean <= rate: body = large
                    ref_ok = b_ == large and o_ == small
        rep.ob("R18.2-refile-large", ref_ok, Loc(W, pair[0].lineno, locb.qual), refile[0].test if refile else "refile",
               "the reduced large item must be refiled as small or large by comparison with the mean (never dropped)")
        okp = True
    rep.ob("R18.2-pairing-loop", okp, locb, "while small and large: pair", "the pairing loop was not recognised")
    flushed = set()
    for l in flush:
        # which list(s) this loop drains: named in its test, or the variable of an enclosing `for v in (small, large)`
        drained: List[Tuple[str, str]] = []    # (list drained, name used for it in the loop)
        for which in (small, large):
            if mentions(l.test, which):
                drained.append((which, which))
        if not drained:
            for outer_ in ast.walk(build):
                if isinstance(outer_, ast.For) and any(x is l for x in ast.walk(outer_)) and isinstance(outer_.target, ast.Name) \
                        and isinstance(outer_.iter, (ast.Tuple, ast.List)) and mentions(l.test, outer_.target.id):
                    drained = [(norm(e_), outer_.target.id) for e_ in outer_.iter.elts if norm(e_) in (small, large)]
        apps = [c for st in l.body for c in ast.walk(st) if isinstance(c, ast.Call) and norm(c.func) == f"self.{table_attr}.append"]
        ok = False
        if drained and len(apps) == 1 and apps[0].args:
            used = drained[0][1]
            row = RB.res(apps[0].args[0], (used,))
            ok = isinstance(row, ast.Tuple) and len(row.elts) == 1 and isinstance(row.elts[0], ast.Call) and len(row.elts[0].args) == 2 \
                and norm(row.elts[0].args[0]) == f"{used}.pop().item" and norm(row.elts[0].args[1]) == mean
        rep.ob("R18.2-flush-rows", ok, Loc(W, l.lineno, locb.qual), apps[0] if apps else l.test,
               "leftover items must each get a one-entry row with the mean rate")
        if ok:
            flushed.update(d for d, _ in drained)
    # leftovers drained by one loop over both lists: for item in chain(reversed(small), reversed(large)): table.append((WalkerItem(item.item, mean),))
    for lp_ in [n for n in ast.walk(build) if isinstance(n, ast.For) and isinstance(n.target, ast.Name)]:
        it_ = lp_.iter
        parts = list(it_.args) if isinstance(it_, ast.Call) and norm(it_.func) in ("chain", "itertools.chain") else \
            ([it_.left, it_.right] if isinstance(it_, ast.BinOp) and isinstance(it_.op, ast.Add) else [it_])
        srcs = []
        for p_ in parts:
            while isinstance(p_, ast.Call) and isinstance(p_.func, ast.Name) and p_.func.id in ("reversed", "list", "tuple", "iter") and len(p_.args) == 1:
                p_ = p_.args[0]
            srcs.append(norm(p_))
        if not set(srcs) <= {small, large} or lp_.orelse:
            continue
        apps = [c for st in lp_.body for c in ast.walk(st) if isinstance(c, ast.Call) and norm(c.func) == f"self.{table_attr}.append"]
        ok = False
        if len(apps) == 1 and apps[0].args:
            row = RB.res(apps[0].args[0], (lp_.target.id,))
            ok = isinstance(row, ast.Tuple) and len(row.elts) == 1 and isinstance(row.elts[0], ast.Call) and len(row.elts[0].args) == 2 \
                and norm(row.elts[0].args[0]) == f"{lp_.target.id}.item" and norm(row.elts[0].args[1]) == mean \
                and not any(isinstance(x, (ast.If, ast.Break, ast.Continue)) for st in lp_.body for x in ast.walk(st))
        rep.ob("R18.2-flush-rows", ok, Loc(W, lp_.lineno, locb.qual), apps[0] if apps else lp_.iter,
               "leftover items must each get a one-entry row with the mean rate")
        if ok:
            flushed.update(srcs)
    rep.ob("R18.2-both-flushed", flushed == {small, large}, locb, f"flushed lists {sorted(flushed)}",
           "both the small and the large list must be emptied into one-entry rows (otherwise cells are lost from the table)")
    # ---- R18.3 -------------------------------------------------------------------------------------------------------
    sb = flat(body_without_docstring(sample))
    locs = Loc(W, sample.lineno, "Walker.sample_cell")
    RS = Resolver(sample)
    rows = [s_ for s_ in ast.walk(sample) if isinstance(s_, ast.Assign) and isinstance(s_.targets[0], ast.Name)
            and isinstance(s_.value, ast.Call) and norm(s_.value.func) == "random.choice"]
    ok = False
    keep_row: Tuple[str, ...] = ()
    choice_calls = [c_ for c_ in ast.walk(sample) if isinstance(c_, ast.Call) and norm(c_.func) == "random.choice"]
    if len(rows) != 1 and len(choice_calls) == 1:
        # the drawn row is not bound to a name of its own (e.g. unpacked at once): the draw itself stands for the row
        class _RowStandIn:
            def __init__(self, call): self.targets, self.value, self.lineno = [call], call, call.lineno
        rows = [_RowStandIn(choice_calls[0])]       # type: ignore
    if len(rows) == 1:
        row = norm(rows[0].targets[0])
        keep_row = (row,) if isinstance(rows[0].targets[0], ast.Name) else ()
        ok_row = norm(rows[0].value) == f"random.choice(self.{table_attr})"
        uniform = (f"random.uniform(0.0, {mean})", f"random.uniform(0, {mean})")

        def coin_side(test: ast.AST) -> Optional[bool]:
            """True: the test holds exactly for heads (uniform(0, mean) <= row[0].rate); False: exactly for tails; None: no coin"""
            at = atoms(RS.res(test, keep_row))
            sp = split_atom(at[0]) if len(at) == 1 else None
            if sp is None:
                return None
            l, op, r = sp
            if l in uniform and r == f"{row}[0].rate" and op in ("<=", "<"):
                return True
            if r in uniform and l == f"{row}[0].rate" and op in ("<", "<="):
                return False
            return None
        # the coin as a statement (`if coin: return a else: return b`) or as a conditional expression inside the returned value
        outcomes: Dict[bool, Optional[str]] = {}
        coin_node = None
        for t in [s_ for s_ in sb if isinstance(s_, ast.If)]:
            side = coin_side(t.test)
            if side is None:
                continue
            coin_node = t.test
            rest = sb[sb.index(t) + 1:]
            for branch, heads in ((t.body, side), ((t.orelse or rest), not side)):
                rs = [x for st in branch for x in ast.walk(st) if isinstance(x, ast.Return)]
                outcomes[heads] = RS.text(rs[0].value, keep_row) if len(rs) == 1 and rs[0].value is not None else None
        if coin_node is None:
            rets = [x for x in ast.walk(sample) if isinstance(x, ast.Return) and x.value is not None]
            if len(rets) == 1:
                rv = RS.res(rets[0].value, keep_row)
                conds = [x for x in ast.walk(rv) if isinstance(x, ast.IfExp)]
                if len(conds) == 1 and coin_side(conds[0].test) is not None:
                    side = coin_side(conds[0].test)
                    coin_node = conds[0].test
                    for pick, heads in ((conds[0].body, side), (conds[0].orelse, not side)):
                        class Sub(ast.NodeTransformer):
                            def visit_IfExp(self, node):
                                return pick if node is conds[0] else self.generic_visit(node)
                        import copy as _copy
                        outcomes[heads] = norm(Sub().visit(_copy.deepcopy(rv))) if False else norm(_replace(rv, conds[0], pick))
        rep.ob("R18.3-uniform-row", ok_row, locs, rows[0].value, "the row must be chosen uniformly from the table")
        rep.ob("R18.3-coin", coin_node is not None, locs, coin_node if coin_node is not None else "coin",
               "the coin must compare uniform(0, mean) with the first entry's rate")
        if coin_node is not None:
            good = outcomes.get(True) == f"{row}[0].item" and outcomes.get(False) == f"{row}[1].item"
            rep.ob("R18.3-coin-outcomes", bool(good), locs, f"heads -> {outcomes.get(True)}, tails -> {outcomes.get(False)}",
                   "heads selects the first entry's cell, tails the second entry's")
        ok = True
    rep.ob("R18.3-sample-shape", ok, locs, "row = choice(table); coin", "sampling idiom not recognised")
    # ---- R18.4 cell-veto handler -----------------------------------------------------------------------------------------
    def _r18_4() -> None:
        cv = prog.class_named("CellVetoEventHandler")
        if "send_event_time" not in cv.methods or "initialize" not in cv.methods:
            raise AnalysisError("CellVetoEventHandler.send_event_time / initialize not found")
        st = canon(prog, cv, cv.methods["send_event_time"])
        ini = canon(prog, cv, cv.methods["initialize"])
        locv = Loc(CV, st.lineno, "CellVetoEventHandler.send_event_time")
        RI, RT = Resolver(ini), Resolver(st)
        # initialize: the bound table stores (upper, -lower) per far cell and direction; each walker table is built per direction from
        # one component of it, clipped at zero
        def bounds_table_of(recv: ast.AST) -> Optional[str]:
            """the self attribute whose entry `recv` is: self.T[k] directly, or a local list that is stored as self.T[k] = local"""
            if isinstance(recv, ast.Subscript) and self_attr(recv.value):
                return self_attr(recv.value)
            if isinstance(recv, ast.Name):
                for a_ in ast.walk(ini):
                    if isinstance(a_, ast.Assign) and isinstance(a_.value, ast.Name) and a_.value.id == recv.id \
                            and isinstance(a_.targets[0], ast.Subscript) and self_attr(a_.targets[0].value):
                        return self_attr(a_.targets[0].value)
            return None
        tup = [n for n in ast.walk(ini) if isinstance(n, ast.Call) and isinstance(n.func, ast.Attribute) and n.func.attr == "append"
               and bounds_table_of(n.func.value) and n.args and isinstance(n.args[0], ast.Tuple)]
        bounds_attr = bounds_table_of(tup[0].func.value) if len(tup) == 1 else None
        if not tup:
            # the bounds are not kept as one table of (upper, -lower) tuples (e.g. two tables, a record per bound kind): the rules on
            # the components of that table and on the pairing of walker and component have nothing to attach to
            raise IdiomNotRecognised("CellVetoEventHandler.initialize: no table of (upper, -lower) bound tuples is filled")
        okc = False
        if len(tup) == 1 and len(tup[0].args[0].elts) == 2:
            e0, e1 = tup[0].args[0].elts
            unpack = [a for a in ast.walk(ini) if isinstance(a, ast.Assign) and isinstance(a.targets[0], ast.Tuple) and len(a.targets[0].elts) == 2
                      and isinstance(a.value, ast.Call) and norm(a.value.func).endswith("derivative_bound")]
            if len(unpack) == 1:
                up, lo = (norm(x) for x in unpack[0].targets[0].elts)
                okc = norm(e0) == up and isinstance(e1, ast.UnaryOp) and isinstance(e1.op, ast.USub) and norm(e1.operand) == lo
        rep.ob("R18.4-bound-components", okc, Loc(CV, tup[0].lineno if tup else ini.lineno, "CellVetoEventHandler.initialize"), tup[0] if tup else "bounds tuple",
               "component 0 is the upper bound, component 1 the negated lower bound (in the order the estimator returns them)")
        comp_of_list: Dict[str, int] = {}
        for c in ast.walk(ini):
            if not (isinstance(c, ast.Call) and isinstance(c.func, ast.Attribute) and c.func.attr == "append" and isinstance(c.func.value, ast.Subscript)
                    and isinstance(c.func.value.value, ast.Name) and c.args and isinstance(c.args[0], ast.Call) and norm(c.args[0].func) == "WalkerItem"):
                continue
            lst, d = c.func.value.value.id, norm(c.func.value.slice)
            ok = False
            comp = None
            wa = c.args[0].args
            if len(wa) == 2:
                rate = RI.res(wa[1], (d,))
                if isinstance(rate, ast.Call) and norm(rate.func) == "max" and len(rate.args) == 2:
                    zero = [x for x in rate.args if isinstance(x, ast.Constant) and x.value == 0]
                    src_ = [x for x in rate.args if not (isinstance(x, ast.Constant))]
                    if len(zero) == 1 and len(src_) == 1:
                        e = src_[0]
                        comp_ = const_value(prog, cv, e.slice) if isinstance(e, ast.Subscript) else None
                        if isinstance(e, ast.Subscript) and isinstance(comp_, int) and isinstance(e.value, ast.Subscript) \
                                and isinstance(e.value.value, ast.Subscript) and self_attr(e.value.value.value) == bounds_attr:
                            comp = comp_
                            ok = norm(e.value.slice) == d and comp in (0, 1)
            if not ok and len(wa) == 2 and len(tup) == 1 and len(tup[0].args[0].elts) == 2:
                # the item rate is the very expression stored as a component of the bound tuple in the same loop body (bounds and
                # walker items built in one pass)
                rate = wa[1]
                same_loop = any(isinstance(lp_, ast.For) and any(x is c for x in ast.walk(lp_)) and any(x is tup[0] for x in ast.walk(lp_))
                                and d in {x.id for x in ast.walk(lp_.target) if isinstance(x, ast.Name)} for lp_ in ast.walk(ini))
                if same_loop and isinstance(rate, ast.Call) and norm(rate.func) == "max" and len(rate.args) == 2:
                    zero = [x for x in rate.args if isinstance(x, ast.Constant) and x.value == 0]
                    src_ = [x for x in rate.args if not isinstance(x, ast.Constant)]
                    if len(zero) == 1 and len(src_) == 1:
                        for k_, comp_e in enumerate(tup[0].args[0].elts):
                            if norm(comp_e) == norm(src_[0]):
                                comp, ok = k_, True
            if ok:
                comp_of_list[lst] = comp
            rep.ob("R18.4-walker-items", ok, Loc(CV, c.lineno, "CellVetoEventHandler.initialize"), c,
                   "the walker of a direction must get, per far cell, max(one bound component, 0) of that cell and the same direction")
        comp_of_attr: Dict[str, int] = {}
        for a in ast.walk(ini):
            if isinstance(a, ast.Assign) and self_attr(a.targets[0]) and isinstance(a.value, ast.ListComp) and isinstance(a.value.elt, ast.Call) \
                    and norm(a.value.elt.func) == "Walker" and len(a.value.generators) == 1 and len(a.value.elt.args) == 1:
                g_ = a.value.generators[0]
                arg_ = a.value.elt.args[0]
                # [Walker(items) for items in LISTS]   or   [Walker(LISTS[d]) for d in range(dimension)]
                if isinstance(g_.iter, ast.Name) and g_.iter.id in comp_of_list and norm(arg_) == norm(g_.target):
                    comp_of_attr[self_attr(a.targets[0])] = comp_of_list[g_.iter.id]
                elif isinstance(arg_, ast.Subscript) and isinstance(arg_.value, ast.Name) and arg_.value.id in comp_of_list \
                        and norm(arg_.slice) == norm(g_.target) and norm(g_.iter) == "range(setting.dimension)":
                    comp_of_attr[self_attr(a.targets[0])] = comp_of_list[arg_.value.id]
        rep.ob("R18.4-walker-per-direction", sorted(comp_of_attr.values()) == [0, 1], Loc(CV, ini.lineno, "CellVetoEventHandler.initialize"),
               f"walker tables per direction built from bound components {comp_of_attr}", "one walker per direction for the upper (component 0) and lower (component 1) bounds")
        # send_event_time under the two signs of the charge factor: abstract run of the canonical method (helpers inlined) with the
        # charge factor positive / not positive.  Tracked values: the charge factor (as is / negated), small integer constants, the walker
        # tables and what is taken out of them; everything else is an opaque symbol.  No variable is named by the rule.
        def sign_run(positive: bool):
            env: Dict[str, object] = {}

            def ev(e: ast.AST):
                if isinstance(e, ast.Constant) and isinstance(e.value, (int, float)) and not isinstance(e.value, bool):
                    return ("const", e.value)
                if isinstance(e, ast.Name):
                    return env.get(e.id, ("sym", e.id))
                if self_attr(e) in comp_of_attr:
                    return ("table", self_attr(e))
                if isinstance(e, ast.Attribute):
                    cvv = const_value(prog, cv, e)
                    if isinstance(cvv, int) and not isinstance(cvv, bool):
                        return ("const", cvv)
                if isinstance(e, ast.Call) and norm(e.func).endswith("charge_correction_factor"):
                    return ("charge", False)
                if isinstance(e, (ast.Tuple, ast.List)):
                    return ("tuple", tuple(ev(x) for x in e.elts))
                if isinstance(e, ast.IfExp):
                    t = truth(e.test)
                    if t is None:
                        raise ValueError(norm(e))
                    return ev(e.body if t else e.orelse)
                if isinstance(e, ast.UnaryOp) and isinstance(e.op, ast.USub):
                    v = ev(e.operand)
                    if v[0] == "charge":
                        return ("charge", not v[1])
                    if v[0] == "const":
                        return ("const", -v[1])
                if isinstance(e, ast.Call) and norm(e.func) == "abs" and len(e.args) == 1:
                    v = ev(e.args[0])
                    if v[0] == "charge":
                        # |c|: the factor itself if it is positive now, else its negative
                        now_positive = positive != v[1]
                        return v if now_positive else ("charge", not v[1])
                if isinstance(e, ast.BinOp) and isinstance(e.op, ast.Mult):
                    l, r = ev(e.left), ev(e.right)
                    for a, b in ((l, r), (r, l)):
                        if a[0] == "charge" and b[0] == "const" and b[1] in (-1, -1.0, 1, 1.0):
                            return ("charge", a[1] != (b[1] < 0))
                if isinstance(e, ast.Subscript):
                    base = ev(e.value)
                    idx = ev(e.slice)
                    if base[0] == "tuple" and idx[0] == "const" and isinstance(idx[1], int) and 0 <= idx[1] < len(base[1]):
                        return base[1][idx[1]]
                    if base[0] == "table":
                        return ("walker", base[1], RT.text(e.slice))
                return ("sym", RT.text(e))

            def truth(t: ast.AST) -> Optional[bool]:
                if isinstance(t, ast.UnaryOp) and isinstance(t.op, ast.Not):
                    v = truth(t.operand)
                    return None if v is None else not v
                if isinstance(t, ast.Compare) and len(t.ops) == 1:
                    l, r, op = ev(t.left), ev(t.comparators[0]), t.ops[0]
                    if l[0] == "const" and r[0] == "const":
                        return {ast.Eq: l[1] == r[1], ast.NotEq: l[1] != r[1], ast.Lt: l[1] < r[1], ast.LtE: l[1] <= r[1], ast.Gt: l[1] > r[1],
                                ast.GtE: l[1] >= r[1]}.get(type(op))
                    for a, b, flip in ((l, r, False), (r, l, True)):
                        if a[0] == "charge" and b[0] == "const" and b[1] == 0:
                            # the case split is on the ORIGINAL factor: positive / not positive (zero included)
                            o = type(op)
                            if flip:
                                o = {ast.Lt: ast.Gt, ast.Gt: ast.Lt, ast.LtE: ast.GtE, ast.GtE: ast.LtE}.get(o, o)
                            if not a[1]:
                                return {ast.Gt: positive, ast.LtE: not positive}.get(o)
                            return {ast.Lt: positive, ast.GtE: not positive}.get(o)
                return None

            def run(stmts) -> None:
                for x in stmts:
                    if isinstance(x, ast.Assign) and len(x.targets) == 1 and isinstance(x.targets[0], ast.Name):
                        env[x.targets[0].id] = ev(x.value)
                    elif isinstance(x, ast.Assign) and len(x.targets) == 1 and isinstance(x.targets[0], (ast.Tuple, ast.List)) \
                            and all(isinstance(t_, ast.Name) for t_ in x.targets[0].elts):
                        v = ev(x.value)
                        for k_, t_ in enumerate(x.targets[0].elts):
                            env[t_.id] = v[1][k_] if v[0] == "tuple" and len(v[1]) == len(x.targets[0].elts) else ("sym", f"{t_.id}'")
                    elif isinstance(x, ast.AugAssign) and isinstance(x.target, ast.Name):
                        cur = env.get(x.target.id, ("sym", x.target.id))
                        v = ev(x.value)
                        if cur[0] == "charge" and isinstance(x.op, ast.Mult) and v[0] == "const" and v[1] in (-1, -1.0, 1, 1.0):
                            env[x.target.id] = ("charge", cur[1] != (v[1] < 0))
                        else:
                            env[x.target.id] = ("sym", f"{x.target.id}'")
                    elif isinstance(x, ast.If):
                        t = truth(x.test)
                        if t is None:
                            touched = {n.id for y in x.body + x.orelse for n in ast.walk(y) if isinstance(n, ast.Name) and isinstance(n.ctx, ast.Store)}
                            if any(env.get(n, ("sym",))[0] != "sym" for n in touched) or any(
                                    isinstance(y, (ast.Assign, ast.AugAssign)) and ev(y.value)[0] != "sym" for z in x.body + x.orelse for y in ast.walk(z)):
                                raise ValueError(norm(x.test))
                            continue
                        run(x.body if t else x.orelse)
                    elif isinstance(x, (ast.For, ast.While)):
                        for n in ast.walk(x):
                            if isinstance(n, ast.Name) and isinstance(n.ctx, ast.Store):
                                env[n.id] = ("sym", f"{n.id}'")
            run(st.body)
            return env
        okb = False
        walker_var = index_var = charge_var = dir_txt = None
        why_sign = "the charge-sign cases could not be followed"
        alias_of: Dict[str, str] = {}
        try:
            envp, envn = sign_run(True), sign_run(False)
            names = sorted(set(envp) & set(envn))
            cases = {n: (envp[n], envn[n]) for n in names}
            sc_calls = [c for c in ast.walk(st) if isinstance(c, ast.Call) and isinstance(c.func, ast.Attribute) and c.func.attr == "sample_cell"
                        and isinstance(c.func.value, ast.Name)]
            wv = sc_calls[0].func.value.id if len(sc_calls) == 1 else None
            if wv in cases and cases[wv][0][0] == "walker" and cases[wv][1][0] == "walker":
                (_, ap, dp), (_, an, dn) = cases[wv]
                walker_var, dir_txt = wv, dp
                idx_names = [n for n in names if cases[n] == (("const", 0), ("const", 1))]
                chg_names = [n for n in names if cases[n] == (("charge", False), ("charge", True))]
                consistent = comp_of_attr.get(ap) == 0 and comp_of_attr.get(an) == 1 and dp == dn
                if idx_names and chg_names:
                    index_var, charge_var = idx_names[-1], chg_names[-1]
                    for grp, rep_name in ((idx_names, index_var), (chg_names, charge_var), ([n for n in names if cases[n] == cases[wv]], walker_var)):
                        for n in grp:
                            alias_of[n] = rep_name
                okb = consistent and bool(idx_names) and bool(chg_names)
                why_sign = f"positive factor: walker of `{ap}`, index {[cases[n][0] for n in idx_names][:1]}; otherwise: walker of `{an}`, " \
                           f"index {[cases[n][1] for n in idx_names][:1]}, factor negated: {bool(chg_names)}"
        except ValueError as e_:
            why_sign = f"not followed: {e_}"
            not_followed = True
        if locals().get("not_followed"):
            okb = None          # the case distinction is written in a form the two-case interpreter does not follow: undecided
        rep.ob("R18.4-walker-and-index-together", okb, locv, why_sign,
               "for a positive charge factor the upper-bound walker goes with bound component 0, otherwise the factor is negated and the "
               "lower-bound walker goes with component 1: walker and confirmation bound must be chosen by the same case")

        def canon_names(txt: str) -> str:
            import re as _re
            for a_, r_ in sorted(alias_of.items(), key=lambda kv: -len(kv[0])):
                if a_ != r_:
                    txt = _re.sub(r"(?<![\w@#])" + _re.escape(a_) + r"(?![\w@#])", r_, txt)
            return txt
        keep = tuple(sorted(set(alias_of) | {x for x in (walker_var, index_var, charge_var) if x}))
        td = [n for n in ast.walk(st) if isinstance(n, ast.BinOp) and isinstance(n.op, ast.Div) and isinstance(RT.res(n.left), ast.Call)
              and norm(RT.res(n.left).func) == "random.expovariate"]
        okt = False
        if len(td) == 1 and walker_var and charge_var and index_var:
            fs = [canon_names(f) for f in RT.factors(td[0], keep)]
            speed = [f for f in fs if f.startswith("1/") and ".velocity[" in f]
            fs = [f[:-2] if f.endswith("()") and any(f == f"1/{walker_var}.{a_}()" for a_ in total_accessors) else f for f in fs]
            okt = RT.text(td[0].left) == "random.expovariate(setting.beta)" and len(fs) == 4 and any(f"1/{walker_var}.{a_}" in fs for a_ in total_accessors) \
                and f"1/{charge_var}" in fs and len(speed) == 1 and "random.expovariate(setting.beta)" in fs
        if locals().get("not_followed") and not okt:
            okt = None
        rep.ob("R18.4-candidate-time", okt, locv, td[0] if td else "time displacement",
               "the candidate time must be Exp(beta) / (total rate of the chosen walker x charge factor x speed)")
        # the speed that converts the rate per distance into a rate per time is that of the unit whose clock the candidate time is
        # counted from (the active leaf): a unit higher up in a composite object moves slower by its weight
        if len(td) == 1 and okt:
            sp_base = speed[0][2:].split(".velocity[")[0]
            ts_bases = {canon_names(RT.text(n.value, keep)) for a in ast.walk(st) if isinstance(a, ast.Assign)
                        for n in ast.walk(a.value) if isinstance(n, ast.Attribute) and n.attr == "time_stamp"
                        and any(isinstance(x, ast.BinOp) and isinstance(x.op, ast.Add) for x in ast.walk(a.value))}
            oks = None if len(ts_bases) != 1 else sp_base in ts_bases
            rep.ob("R18.4-speed-of-the-clock-unit", oks, locv, f"speed of `{sp_base}`, candidate time counted from the time stamp of {sorted(ts_bases)}",
                   "the speed dividing the sampled displacement must be the speed of the unit whose time stamp the candidate time is added to "
                   "(the active leaf unit); the unit on the cell level of a composite object moves slower by its weight, so proposals "
                   "would come too rarely")
        be = [a for a in ast.walk(st) if isinstance(a, ast.Assign) and self_attr(a.targets[0]) and "rate" in self_attr(a.targets[0])
              and isinstance(a.value, ast.BinOp)]
        okq = False
        if len(be) == 1 and walker_var and charge_var and index_var:
            sc = [a for a in ast.walk(st) if isinstance(a, ast.Assign) and isinstance(a.targets[0], ast.Name)
                  and canon_names(RT.text(a.value, keep)) == f"{walker_var}.sample_cell()"]
            if len(sc) == 1:
                cellv = norm(sc[0].targets[0])
                fs = [canon_names(f) for f in RT.factors(be[0].value, keep + (cellv,))]
                dir_here = canon_names(dir_txt or "")
                okq = sorted(fs) == sorted([charge_var, f"self.{bounds_attr}[{cellv}][{dir_txt}][{index_var}]"])

        if locals().get("not_followed") and not okq:
            okq = None
        rep.ob("R18.4-bound-at-sampled-cell", okq, locv, be[0] if be else "bounding event rate",
               "the confirmation bound must be the stored bound of the sampled cell, the direction of motion and the chosen component, "
               "times the charge factor")
    try:
        _r18_4()
    except IdiomNotRecognised as e_:
        rep.ob("R18.4-bound-components", None, Loc(CV, 0, "CellVetoEventHandler"), "cell-veto handler", f"idiom not recognised: {e_}")
    from ..cell_rules import check_active_cell_level
    check_active_cell_level(prog, rep, "R18.4-active-cell-at-cell-level")
    from ..config_graph import ConfigGraph
    from ..inifront import load_all
    cache = {}
    for cfg in load_all(prog):
        ConfigGraph(prog, cfg, cache).explore(rep, ("C18",))
    rep.expect_min("R18.6-veto-candidate-follows-active-cell", 1)
    from ..handler_dims import check_handler_dimensions
    check_handler_dimensions(prog, src, rep, "R18.5-handler-dimensions", lambda h: prog.is_subclass(h, 'CellVetoEventHandler'))
    rep.expect_min("R18.2-mass-conserved", 1)
    rep.expect_min("R18.3-coin", 1)
    rep.expect_min("R18.4-candidate-time", 1)
    return [rep]


MUTANTS = [
    Edit("mass removed differs from mass moved", W, "            large_item.rate -= self._mean_rate - small_item.rate\n",
         "            large_item.rate -= small_item.rate\n", "R18.2"),
    Edit("row carries the small rate for the large item", W, "WalkerItem(large_item.item, self._mean_rate - small_item.rate)",
         "WalkerItem(large_item.item, small_item.rate)", "R18.2"),
    Edit("coin against the second entry", W, "<= choice_from_table[0].rate:", "<= choice_from_table[1].rate:", "R18.3"),
    Edit("coin outcomes swapped", W, "            return choice_from_table[0].item\n        else:\n            return choice_from_table[1].item",
         "            return choice_from_table[1].item\n        else:\n            return choice_from_table[0].item", "R18.3"),
    Edit("large leftovers not flushed", W,
         r"        while len\(large_list\):\n(?:            [^\n]*\n)+", "", "R18.2", regex=True),
    Edit("mean over n+1", W, "self._mean_rate = self._total_rate / len(walker_items)", "self._mean_rate = self._total_rate / (len(walker_items) + 1)", "R18.1"),
    Edit("total rate property returns the mean", W, "        return self._total_rate\n", "        return self._mean_rate\n", "R18.1"),
    Edit("candidate time without the speed", CV, "random.expovariate(setting.beta) / (total_rate * speed)", "random.expovariate(setting.beta) / total_rate", "R18.4"),
    Edit("lower walker with component 0", CV, "            bounding_event_rate_index = 1\n", "            bounding_event_rate_index = 0\n", "R18.4"),
    Edit("upper walker items from the lower bound", CV, "self._derivative_bounds[cell_separation][direction][0], 0.0)", "self._derivative_bounds[cell_separation][direction][1], 0.0)", "R18.4"),
    Edit("refiled large item dropped", W, "            if large_item.rate < self._mean_rate:\n                small_list.append(large_item)\n            else:\n                large_list.append(large_item)\n",
         "            if large_item.rate > self._mean_rate:\n                large_list.append(large_item)\n", "R18.2"),
]
MUTANTS.append(Edit("candidate time: speed on the wrong side", CV, "random.expovariate(setting.beta) / (total_rate * speed)",
                    "random.expovariate(setting.beta) / total_rate * speed", "R18"))
TWINS = [
    Edit("rename locals in sampling", W, "choice_from_table", "row", every=True),
    Edit("product reordered", CV, "total_rate = walker.total_rate * charge_factor", "total_rate = charge_factor * walker.total_rate"),
]
MUTANTS += [
    Edit("active cell from the leaf unit instead of the unit on the cell level", CV,
         "        active_cell = self._cells.position_to_cell(relevant_cnode.value.position)", "        active_cell = self._cells.position_to_cell(self._active_leaf_unit.position)", "R18.4"),
    Edit("cell boundary does not renew the cell-veto candidate", "jellyfysh/config_files/2018_JCP_149_064113/coulomb_atoms/cell_veto.ini",
         "[CellBoundary]\ncreate = coulomb_nearby, coulomb_cell_veto, cell_boundary, coulomb_surplus\ntrash = coulomb_nearby, coulomb_cell_veto, cell_boundary, coulomb_surplus",
         "[CellBoundary]\ncreate = coulomb_nearby, cell_boundary, coulomb_surplus\ntrash = coulomb_nearby, cell_boundary, coulomb_surplus", "R18.6"),
]

# seventh round (C18_G): speed of another unit than the one whose clock the candidate time is counted from
MUTANTS.append(Edit("speed of the first leaf cnode's parent chain instead of the active leaf unit", CV,
                    "speed = self._active_leaf_unit.velocity[direction_of_motion]",
                    "speed = self._leaf_cnodes[0].value.velocity[direction_of_motion]", "R18.4"))
