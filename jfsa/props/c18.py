"""
C18 -- cell-veto proposals pick target cells exactly in proportion to their bound rates.

Decided: R18.1 total / mean rate dataflow of the alias table; R18.2 row construction: every two-entry row is
(small, (large.item, mean - small.rate)) and exactly that mass is removed from the large item, refiled by comparison with
the mean; one-entry rows carry the mean; both remainders are flushed; R18.3 sampling = uniform row, one coin
uniform(0, mean) vs row[0].rate choosing row[0] else row[1]; R18.4 in the cell-veto handler the candidate time is
Exp(beta) / (total rate x charge factor x speed), walker and bound index are chosen by the same charge-sign branch, the
bound is read at the sampled cell and direction, upper/lower walkers are built from bound components 0/1 clipped at 0.
Not decided: exactness of the alias table for concrete rate vectors (floats), zero-rate cells at the boundary draw 0.0.
"""
import ast
from typing import List, Optional

from ..core import AnalysisError, Loc, Report, Source, norm
from ..pyfront import Program, body_without_docstring, param_names, self_attr
from ..selftest import Edit

ID = "C18"
W = "jellyfysh/event_handler/walker.py"
CV = "jellyfysh/event_handler/abstracts/cell_veto_event_handler.py"


def analyse(src: Source) -> List[Report]:
    rep = Report(ID, src)
    rep.explain(
        "R18.1: total = sum of the item rates, mean = total / number of items, total_rate returns the stored total. R18.2: "
        "items are split by `rate > mean`; the pairing loop pops one small and one large item, appends the row (small, "
        "WalkerItem(large.item, mean - small.rate)) and subtracts the very same expression from the large item's rate (mass "
        "moved = mass removed), then refiles the large item by comparison with the mean; the two flush loops append one-entry "
        "rows with rate mean until both lists are empty. R18.3: sample = random.choice(table) followed by one coin "
        "uniform(0, mean) <= row[0].rate selecting row[0].item else row[1].item. R18.4: cell-veto candidate time = "
        "expovariate(beta) / (walker.total_rate * charge factor * speed); the walker (upper/lower) and the bound index (0/1) are "
        "selected in the same branch on the sign of the charge factor; the confirmation bound is "
        "bounds[sampled cell][direction][index] * charge factor; the walkers are built per direction from bound component 0 "
        "(upper) and 1 (lower), clipped at 0. Not decided: exactness on concrete float vectors.")
    prog = Program(src)
    wk = prog.class_named("Walker")
    init, build, sample = wk.methods.get("__init__"), wk.methods.get("_build_table"), wk.methods.get("sample_cell")
    if not (init and build and sample):
        raise AnalysisError("Walker methods not found")
    items = param_names(init)[0]
    # ---- R18.1 -------------------------------------------------------------------------------------------------------
    assigns = {self_attr(n.targets[0]): n for n in ast.walk(init) if isinstance(n, ast.Assign) and self_attr(n.targets[0])}
    total_attr = next((a for a, n in assigns.items() if isinstance(n.value, ast.Call) and norm(n.value.func) == "sum"), None)
    mean_attr = next((a for a, n in assigns.items() if isinstance(n.value, ast.BinOp) and isinstance(n.value.op, ast.Div)), None)
    table_attr = next((a for a, n in assigns.items() if isinstance(n.value, ast.List)), None)
    loc = Loc(W, init.lineno, "Walker.__init__")
    ok = total_attr is not None and f".rate for" in norm(assigns[total_attr].value) and f"in {items}" in norm(assigns[total_attr].value)
    rep.ob("R18.1-total-is-sum", ok, loc, assigns[total_attr] if total_attr else "total", "the total rate must be the sum of the item rates")
    ok = mean_attr is not None and norm(assigns[mean_attr].value) == f"self.{total_attr} / len({items})"
    rep.ob("R18.1-mean-is-total-over-n", ok, loc, assigns[mean_attr] if mean_attr else "mean", "the mean rate must be total / number of items")
    props = [m for m in wk.methods.values() if any(norm(d) == "property" for d in m.decorator_list)]
    ok = any(any(isinstance(r, ast.Return) and self_attr(r.value) == total_attr for r in ast.walk(m)) for m in props)
    rep.ob("R18.1-total-rate-property", ok, Loc(W, wk.node.lineno, "Walker.total_rate"), "total_rate returns the stored total",
           "the reported total must equal the sum of the rates")
    if not (total_attr and mean_attr and table_attr):
        return [rep]
    mean = f"self.{mean_attr}"
    # ---- R18.2 -------------------------------------------------------------------------------------------------------
    body = body_without_docstring(build)
    split = [n for n in body if isinstance(n, ast.For)]
    loops = [n for n in body if isinstance(n, ast.While)]
    locb = Loc(W, build.lineno, "Walker._build_table")
    small = large = None
    if len(split) == 1 and len(split[0].body) == 1 and isinstance(split[0].body[0], ast.If):
        t = split[0].body[0]
        v = norm(split[0].target)
        if norm(t.test) == f"{v}.rate > {mean}":
            large = norm(t.body[0].value.func.value) if isinstance(t.body[0], ast.Expr) else None
            small = norm(t.orelse[0].value.func.value) if t.orelse and isinstance(t.orelse[0], ast.Expr) else None
        elif norm(t.test) in (f"{v}.rate <= {mean}", f"not {v}.rate > {mean}"):
            small = norm(t.body[0].value.func.value) if isinstance(t.body[0], ast.Expr) else None
            large = norm(t.orelse[0].value.func.value) if t.orelse and isinstance(t.orelse[0], ast.Expr) else None
    rep.ob("R18.2-split-by-mean", bool(small and large), locb, split[0].body[0].test if split and isinstance(split[0].body[0], ast.If) else "split",
           "items must be split into those above the mean rate (large) and the others (small)")
    if not (small and large):
        return [rep]
    pair = [l for l in loops if small in norm(l.test) and large in norm(l.test)]
    flush = [l for l in loops if l not in pair]
    okp = False
    if len(pair) == 1:
        pb = pair[0].body
        pops = {norm(s.value.func.value): norm(s.targets[0]) for s in pb if isinstance(s, ast.Assign) and isinstance(s.value, ast.Call)
                and isinstance(s.value.func, ast.Attribute) and s.value.func.attr == "pop" and not s.value.args}
        s_it, l_it = pops.get(small), pops.get(large)
        moved = f"{mean} - {s_it}.rate"
        apps = [s for s in pb if isinstance(s, ast.Expr) and isinstance(s.value, ast.Call) and norm(s.value.func) == f"self.{table_attr}.append"]
        subs = [s for s in pb if isinstance(s, ast.AugAssign) and isinstance(s.op, ast.Sub) and norm(s.target) == f"{l_it}.rate"]
        row_ok = len(apps) == 1 and norm(apps[0].value.args[0]) == f"({s_it}, WalkerItem({l_it}.item, {moved}))"
        sub_ok = len(subs) == 1 and norm(subs[0].value) == moved
        rep.ob("R18.2-row-shape", row_ok, Loc(W, pair[0].lineno, "Walker._build_table"), apps[0] if apps else "row",
               "a two-entry row must be (small item, (large item's cell, mean - small rate)): the small item fills its share of the "
               "row, the large one the rest")
        rep.ob("R18.2-mass-conserved", sub_ok, Loc(W, pair[0].lineno, "Walker._build_table"), subs[0] if subs else "subtraction",
               "exactly the mass put into the row (mean - small rate) must be removed from the large item")
        refile = [s for s in pb if isinstance(s, ast.If)]
        ref_ok = False
        if len(refile) == 1:
            t = norm(refile[0].test)
            b, o = " ".join(norm(x) for x in refile[0].body), " ".join(norm(x) for x in refile[0].orelse)
            ref_ok = (t == f"{l_it}.rate < {mean}" and f"{small}.append({l_it})" in b and f"{large}.append({l_it})" in o) or \
                     (t in (f"{l_it}.rate >= {mean}", f"{l_it}.rate > {mean}") and f"{large}.append({l_it})" in b and f"{small}.append({l_it})" in o)
        rep.ob("R18.2-refile-large", ref_ok, Loc(W, pair[0].lineno, "Walker._build_table"), refile[0].test if refile else "refile",
               "the reduced large item must be refiled as small or large by comparison with the mean (never dropped)")
        okp = True
    rep.ob("R18.2-pairing-loop", okp, locb, "while small and large: pair", "the pairing loop was not recognised")
    flushed = set()
    for l in flush:
        which = small if small in norm(l.test) else large if large in norm(l.test) else None
        apps = [s for s in l.body if isinstance(s, ast.Expr) and isinstance(s.value, ast.Call) and norm(s.value.func) == f"self.{table_attr}.append"]
        ok = which is not None and len(apps) == 1 and norm(apps[0].value.args[0]) == f"(WalkerItem({which}.pop().item, {mean}),)"
        rep.ob("R18.2-flush-rows", ok, Loc(W, l.lineno, "Walker._build_table"), apps[0] if apps else l.test,
               "leftover items must each get a one-entry row with the mean rate")
        if ok:
            flushed.add(which)
    rep.ob("R18.2-both-flushed", flushed == {small, large}, locb, f"flushed lists {sorted(flushed)}",
           "both the small and the large list must be emptied into one-entry rows (otherwise cells are lost from the table)")
    # ---- R18.3 -------------------------------------------------------------------------------------------------------
    sb = body_without_docstring(sample)
    locs = Loc(W, sample.lineno, "Walker.sample_cell")
    ok = False
    if len(sb) == 2 and isinstance(sb[0], ast.Assign) and isinstance(sb[1], ast.If):
        row = norm(sb[0].targets[0])
        ok_row = norm(sb[0].value) == f"random.choice(self.{table_attr})"
        t = sb[1].test
        coin = isinstance(t, ast.Compare) and norm(t.left) in (f"random.uniform(0.0, {mean})", f"random.uniform(0, {mean})") \
            and isinstance(t.ops[0], (ast.LtE, ast.Lt)) and norm(t.comparators[0]) == f"{row}[0].rate"
        rets = (norm(sb[1].body[0]) == f"return {row}[0].item") and sb[1].orelse and norm(sb[1].orelse[0]) == f"return {row}[1].item"
        rep.ob("R18.3-uniform-row", ok_row, locs, sb[0], "the row must be chosen uniformly from the table")
        rep.ob("R18.3-coin", bool(coin), locs, t, "the coin must compare uniform(0, mean) with the first entry's rate")
        rep.ob("R18.3-coin-outcomes", bool(rets), locs, sb[1], "heads selects the first entry's cell, tails the second entry's")
        ok = True
    rep.ob("R18.3-sample-shape", ok, locs, "row = choice(table); coin", "sampling idiom not recognised")
    # ---- R18.4 cell-veto handler -----------------------------------------------------------------------------------------
    cv = prog.class_named("CellVetoEventHandler")
    st = cv.methods.get("send_event_time")
    ini = cv.methods.get("initialize")
    locv = Loc(CV, st.lineno, "CellVetoEventHandler.send_event_time")
    branch = [n for n in ast.walk(st) if isinstance(n, ast.If) and any(isinstance(a, ast.Assign) and "walker" in norm(a.value) for a in n.body)]
    okb = False
    if len(branch) == 1:
        b = branch[0]
        def facts(stmts):
            w = [norm(a.value) for a in stmts if isinstance(a, ast.Assign) and "walker" in norm(a.value)]
            i = [a.value.value for a in stmts if isinstance(a, ast.Assign) and isinstance(a.value, ast.Constant) and isinstance(a.value.value, int)]
            return (w[0] if w else None, i[0] if i else None)
        tw, ti = facts(b.body)
        ew, ei = facts(b.orelse)
        pos = norm(b.test).endswith("> 0.0") or norm(b.test).endswith("> 0")
        upper_then = tw is not None and "upper" in tw
        okb = pos and ((upper_then and ti == 0 and ew is not None and "lower" in ew and ei == 1))
        flips = any(isinstance(a, ast.AugAssign) and isinstance(a.op, ast.Mult) and norm(a.value) in ("-1.0", "-1") for a in b.orelse)
        okb = okb and flips
    rep.ob("R18.4-walker-and-index-together", okb, locv, branch[0].test if branch else "charge-sign branch",
           "for a positive charge factor the upper-bound walker goes with bound component 0, otherwise the factor is negated and the "
           "lower-bound walker goes with component 1: walker and confirmation bound must be chosen in the same branch")
    td = [a for a in ast.walk(st) if isinstance(a, ast.Assign) and "expovariate" in norm(a.value)]
    okt = False
    if len(td) == 1 and isinstance(td[0].value, ast.BinOp) and isinstance(td[0].value.op, ast.Div):
        num, den = td[0].value.left, td[0].value.right
        tr = [a for a in ast.walk(st) if isinstance(a, ast.Assign) and norm(a.targets[0]) in [n.id for n in ast.walk(den) if isinstance(n, ast.Name)]
              and "total_rate" in norm(a.value)]
        okt = norm(num) == "random.expovariate(setting.beta)" and isinstance(den, ast.BinOp) and isinstance(den.op, ast.Mult) \
            and "speed" in norm(den) and len(tr) == 1 and norm(tr[0].value) in ("walker.total_rate * charge_factor", "charge_factor * walker.total_rate")
    rep.ob("R18.4-candidate-time", okt, locv, td[0] if td else "time displacement",
           "the candidate time must be Exp(beta) / (total rate of the chosen walker x charge factor x speed)")
    be = [a for a in ast.walk(st) if isinstance(a, ast.Assign) and self_attr(a.targets[0]) and "rate" in self_attr(a.targets[0])
          and isinstance(a.value, ast.BinOp)]
    okq = False
    if len(be) == 1:
        sc = [a for a in ast.walk(st) if isinstance(a, ast.Assign) and norm(a.value) == "walker.sample_cell()"]
        if len(sc) == 1:
            cellv = norm(sc[0].targets[0])
            okq = norm(be[0].value) == f"self._derivative_bounds[{cellv}][direction_of_motion][bounding_event_rate_index] * charge_factor"
    rep.ob("R18.4-bound-at-sampled-cell", okq, locv, be[0] if be else "bounding event rate",
           "the confirmation bound must be the stored bound of the sampled cell, the direction of motion and the chosen component, "
           "times the charge factor")
    # walkers built per direction from component 0 / 1 clipped at 0
    for kind, comp in (("upper", 0), ("lower", 1)):
        apps = [n for n in ast.walk(ini) if isinstance(n, ast.Call) and isinstance(n.func, ast.Attribute) and n.func.attr == "append"
                and kind in norm(n.func.value) and n.args and norm(n.args[0].func if isinstance(n.args[0], ast.Call) else n.args[0]) == "WalkerItem"]
        ok = len(apps) == 1 and norm(apps[0].args[0].args[1]) == f"max(self._derivative_bounds[cell_separation][direction][{comp}], 0.0)" \
            and norm(apps[0].func.value).endswith("[direction]")
        rep.ob("R18.4-walker-items", ok, Loc(CV, apps[0].lineno if apps else ini.lineno, "CellVetoEventHandler.initialize"),
               apps[0] if apps else f"{kind} walker items",
               f"the {kind}-bound walker of a direction must get, per far cell, max(bound component {comp}, 0) of that cell and direction")
    mk = [a for a in ast.walk(ini) if isinstance(a, ast.Assign) and self_attr(a.targets[0]) and "walker" in self_attr(a.targets[0])
          and isinstance(a.value, ast.ListComp)]
    rep.ob("R18.4-walker-per-direction", len(mk) == 2 and all("Walker(" in norm(a.value) for a in mk),
           Loc(CV, ini.lineno, "CellVetoEventHandler.initialize"), "one walker per direction for upper and lower bounds", "walkers not built per direction")
    tup = [n for n in ast.walk(ini) if isinstance(n, ast.Call) and isinstance(n.func, ast.Attribute) and n.func.attr == "append"
           and "_derivative_bounds" in norm(n.func.value) and n.args and isinstance(n.args[0], ast.Tuple)]
    rep.ob("R18.4-bound-components", len(tup) == 1 and norm(tup[0].args[0]) == "(upper_bound, -lower_bound)",
           Loc(CV, tup[0].lineno if tup else ini.lineno, "CellVetoEventHandler.initialize"), tup[0] if tup else "bounds tuple",
           "component 0 is the upper bound, component 1 the negated lower bound")
    from ..handler_dims import check_handler_dimensions
    check_handler_dimensions(prog, src, rep, "R18.5-handler-dimensions", lambda h: prog.is_subclass(h, 'CellVetoEventHandler'))
    rep.expect_min("R18.2-mass-conserved", 1)
    rep.expect_min("R18.3-coin", 1)
    rep.expect_min("R18.4-candidate-time", 1)
    return [rep]


MUTANTS = [
    Edit("mass removed differs from mass moved", W, "            large_item.rate -= self._mean_rate - small_item.rate\n",
         "            large_item.rate -= small_item.rate\n", "R18.2"),
    Edit("row carries the small rate for the large item", W, "WalkerItem(large_item.item, self._mean_rate - small_item.rate)",
         "WalkerItem(large_item.item, small_item.rate)", "R18.2"),
    Edit("coin against the second entry", W, "<= choice_from_table[0].rate:", "<= choice_from_table[1].rate:", "R18.3"),
    Edit("coin outcomes swapped", W, "            return choice_from_table[0].item\n        else:\n            return choice_from_table[1].item",
         "            return choice_from_table[1].item\n        else:\n            return choice_from_table[0].item", "R18.3"),
    Edit("large leftovers not flushed", W,
         r"        while len\(large_list\):\n(?:            [^\n]*\n)+", "", "R18.2", regex=True),
    Edit("mean over n+1", W, "self._mean_rate = self._total_rate / len(walker_items)", "self._mean_rate = self._total_rate / (len(walker_items) + 1)", "R18.1"),
    Edit("total rate property returns the mean", W, "        return self._total_rate\n", "        return self._mean_rate\n", "R18.1"),
    Edit("candidate time without the speed", CV, "random.expovariate(setting.beta) / (total_rate * speed)", "random.expovariate(setting.beta) / total_rate", "R18.4"),
    Edit("lower walker with component 0", CV, "            bounding_event_rate_index = 1\n", "            bounding_event_rate_index = 0\n", "R18.4"),
    Edit("upper walker items from the lower bound", CV, "self._derivative_bounds[cell_separation][direction][0], 0.0)", "self._derivative_bounds[cell_separation][direction][1], 0.0)", "R18.4"),
    Edit("refiled large item dropped", W, "            if large_item.rate < self._mean_rate:\n                small_list.append(large_item)\n            else:\n                large_list.append(large_item)\n",
         "            if large_item.rate > self._mean_rate:\n                large_list.append(large_item)\n", "R18.2"),
]
MUTANTS.append(Edit("candidate time: speed on the wrong side", CV, "random.expovariate(setting.beta) / (total_rate * speed)",
                    "random.expovariate(setting.beta) / total_rate * speed", "R18"))
TWINS = [
    Edit("rename locals in sampling", W, "choice_from_table", "row", every=True),
    Edit("product reordered", CV, "total_rate = walker.total_rate * charge_factor", "total_rate = charge_factor * walker.total_rate"),
]
