"""
C12 -- composite objects stay consistent with their point masses.

Decided: R12.1 every leaf-velocity write in a LeavesEventHandler subclass is followed by the commit of the non-leaf
changes before the out-state is returned, with a velocity change registered (for the same cnode where the written unit is
syntactically c.value); R12.2 shape of the commit routine (time-slice before the in-place change of a moving ancestor,
event-time stamp for an ancestor at rest, weight applied exactly once per level, the registered change is weighted);
R12.3 velocity is None <=> time_stamp is None co-write; R12.4 the mode switcher has an out-state routine per mode.
Not decided: barycentre / velocity equalities on floats, the random creators' geometry.
"""
import ast
from typing import List, Optional

from ..core import tolerant, IdiomNotRecognised, AnalysisError, Loc, Report, Source, norm
from ..handlers import concrete_handlers, getattr_dispatch, parent_map, stores
from ..protocol import HandlerProtocol, Roles
from ..pyfront import Program, body_without_docstring, param_names, self_attr
from ..resolve import Resolver
from ..selftest import Edit

ID = "C12"


@tolerant("R12.2-commit-roles")
def check_commit_routine(prog: Program, rep: Report) -> None:
    base = prog.class_named("LeavesEventHandler")
    roles = Roles(prog, base)
    if not (roles.register and roles.commit and roles.commit_subtree):
        raise IdiomNotRecognised("LeavesEventHandler: register / commit routines not identified by role")
    file = base.file
    # ---- register: change weighted by the leaf's weight, each ancestor level multiplies by that ancestor's weight once
    reg = roles.canonical[sorted(roles.register)[0]]
    ps = param_names(reg)
    leaf, change = ps[0], ps[1]
    loc = Loc(file, reg.lineno, f"{base.name}.{reg.name}")
    weighted = [n for n in ast.walk(reg) if isinstance(n, ast.BinOp) and isinstance(n.op, ast.Mult)
                and f"{leaf}.weight" in (norm(n.left), norm(n.right))]
    rep.ob("R12.2-leaf-weight-once", len(weighted) == 1, loc, f"{reg.name}: weight of the leaf applied {len(weighted)}x",
           "the registered leaf velocity change must be multiplied by the leaf's weight exactly once")
    loops = [n for n in ast.walk(reg) if isinstance(n, ast.While)]
    if len(loops) != 1:
        rep.ob("R12.2-ancestor-walk", None, loc, reg.name, "ancestor loop not recognised")
    else:
        lp = loops[0]
        parent_var = None
        t = lp.test
        if isinstance(t, ast.Compare) and isinstance(t.left, ast.Name):
            parent_var = t.left.id
        elif isinstance(t, ast.Name):
            parent_var = t.id
        adv = [n for n in lp.body if isinstance(n, ast.Assign) and isinstance(n.targets[0], ast.Name)
               and n.targets[0].id == parent_var and norm(n.value) == f"{parent_var}.parent"]
        rep.ob("R12.2-ancestor-walk", bool(parent_var) and len(adv) == 1, Loc(file, lp.lineno, loc.qual), lp.test,
               "every ancestor up to the root must receive the weighted change (walk parent -> parent.parent)")
        RR = Resolver(reg)

        def entry_of_change_dict(e: ast.AST) -> Optional[ast.AST]:
            """key expression if e denotes change_dict[key] (directly, through a local, or looked up with .get(key))"""
            e = RR.res(e)
            if isinstance(e, ast.Subscript) and self_attr(e.value) == roles.change_dict:
                return e.slice
            if isinstance(e, ast.Call) and isinstance(e.func, ast.Attribute) and e.func.attr == "get" and self_attr(e.func.value) == roles.change_dict \
                    and e.args:
                return e.args[0]
            return None
        adds = [n for n in ast.walk(lp) if isinstance(n, ast.AugAssign) and isinstance(n.op, ast.Add)
                and isinstance(n.target, ast.Subscript) and entry_of_change_dict(n.target.value) is not None]
        sets = [n for n in ast.walk(lp) if isinstance(n, ast.Assign) and isinstance(n.targets[0], ast.Subscript)
                and self_attr(n.targets[0].value) == roles.change_dict]
        rep.ob("R12.2-accumulates", len(adds) == 1 and len(sets) == 1, Loc(file, lp.lineno, loc.qual),
               f"{reg.name}: accumulate per ancestor",
               "the change must be added to an existing entry of the ancestor (+=) or start a new entry (copy), once each")
        if adds:
            key_ = entry_of_change_dict(adds[0].target.value)
            key_ok = (key_ is not None and RR.text(key_) == f"{parent_var}.value.identifier") or \
                any(isinstance(n, ast.Assign) and norm(n.value) == f"{parent_var}.value.identifier" for n in lp.body)
            rep.ob("R12.2-keyed-by-ancestor", key_ok, Loc(file, adds[0].lineno, loc.qual), adds[0],
                   "the accumulated change must be keyed by the ancestor's identifier")
    # ---- commit subtree -------------------------------------------------------------------------------------------
    cs = roles.canonical[sorted(roles.commit_subtree)[0]]
    loc = Loc(file, cs.lineno, f"{base.name}.{cs.name}")
    parents = parent_map(cs)
    RC = Resolver(cs)
    for stmt, field, recv, elementwise, value in stores(cs):
        if field != "velocity":
            continue
        sloc = Loc(file, stmt.lineno, loc.qual)
        if isinstance(stmt, ast.AugAssign) or elementwise:
            # in-place change of a moving ancestor: a time-slice of that unit must precede it in the same branch
            branch = _enclosing_block(cs, stmt, parents)
            idx_write = _top_index(branch, stmt)
            sliced = any(isinstance(n, ast.Call) and isinstance(n.func, ast.Attribute) and n.func.attr in roles.unit_slice
                         for st in branch[:idx_write] for n in ast.walk(st))
            rep.ob("R12.2-slice-before-inplace", sliced, sloc, stmt,
                   "an already moving composite object must be time-sliced to the event time before its velocity is "
                   "changed in place (otherwise its stored position no longer matches the barycentre)")
            ok_val = isinstance(stmt, ast.AugAssign) and isinstance(stmt.op, ast.Add) and \
                any(self_attr(n) == roles.change_dict for n in ast.walk(RC.res(stmt.value)))
            rep.ob("R12.2-adds-registered-change", ok_val, sloc, stmt,
                   "the in-place change must add the registered change of this unit")
        elif isinstance(value, ast.Constant) and value.value is None:
            pass  # co-write checked by R12.3
        else:
            branch = _enclosing_block(cs, stmt, parents)
            ts = [s for s in branch if isinstance(s, ast.Assign) and any(norm(t) == f"{norm(recv)}.time_stamp" for t in s.targets)]
            ok = len(ts) == 1 and "_event_time" in norm(ts[0].value) and "copy" in norm(ts[0].value)
            rep.ob("R12.2-rest-to-moving-stamp", ok, sloc, stmt,
                   "a composite object that starts to move must get a copy of the event time as its time stamp")
            okv = any(self_attr(n) == roles.change_dict for n in ast.walk(RC.res(value))) and "copy" in norm(value)
            rep.ob("R12.2-rest-to-moving-velocity", okv, sloc, stmt,
                   "its velocity must be (a copy of) the registered change")
    # "absent exactly when none moves": the induced velocity is accumulated incrementally (+= per change), so what is left when the
    # last member stops is a rounding residue, not 0.0 -- the test that clears the velocity must be a tolerance test on the magnitudes
    for g_ in [n for n in ast.walk(cs) if isinstance(n, ast.If)]:
        clears = any(isinstance(a, ast.Assign) and isinstance(a.value, ast.Constant) and a.value.value is None
                     and any(isinstance(t, ast.Attribute) and t.attr == "velocity" for t in a.targets) for a in g_.body)
        if not clears or not any(isinstance(x, ast.Attribute) and x.attr == "velocity" for x in ast.walk(g_.test)):
            continue
        t_ = g_.test
        tolerant = any(isinstance(c_, ast.Compare) and len(c_.ops) == 1 and isinstance(c_.ops[0], (ast.Lt, ast.LtE, ast.Gt, ast.GtE))
                       and any(isinstance(x, ast.Call) and norm(x.func) in ("abs", "math.fabs", "fabs") for x in ast.walk(c_))
                       and any(isinstance(x, ast.Constant) and isinstance(x.value, float) and x.value > 0.0 for x in ast.walk(c_))
                       for c_ in ast.walk(t_))
        exact = any((isinstance(c_, ast.Compare) and any(isinstance(o_, (ast.Eq, ast.NotEq)) for o_ in c_.ops)) or
                    (isinstance(c_, ast.Call) and norm(c_.func) in ("any", "all") and not any(isinstance(y, ast.Compare) for y in ast.walk(c_)))
                    for c_ in ast.walk(t_))
        rep.ob("R12.2-rest-test-tolerant", True if tolerant else (False if exact else None), Loc(file, g_.lineno, f"{base.name}.{cs.name}"), t_,
               "the composite object is set to rest by an exact test on its accumulated velocity: the incremental sums leave a residue "
               "of the order of 1e-17, so the object keeps a velocity (and a time stamp) although none of its members moves")
    rec = [n for n in ast.walk(cs) if isinstance(n, ast.Call) and isinstance(n.func, ast.Attribute)
           and n.func.attr == cs.name]
    loops = [n for n in ast.walk(cs) if isinstance(n, ast.For) and "children" in norm(n.iter)]
    # ... or, written with an explicit work list (normal form `for c in __subtree_nodes__([node])`), the whole routine is the body of
    # one unconditional loop over all nodes below its parameter
    cs_params = [p_ for p_ in param_names(cs)]
    whole = [n for n in body_without_docstring(cs) if isinstance(n, ast.For) and isinstance(n.iter, ast.Call)
             and norm(n.iter.func) == "__subtree_nodes__" and len(n.iter.args) == 1
             and norm(n.iter.args[0]).strip("[]()") .rstrip(",") in cs_params]
    descends = (bool(rec) and bool(loops) and all(_top_level(cs, l) for l in loops)) or \
        (len(whole) == 1 and all(isinstance(x, ast.For) or isinstance(x, (ast.Pass, ast.Expr)) for x in body_without_docstring(cs)))
    rep.ob("R12.2-recurses-children", descends, loc,
           f"{cs.name}: recursion over children",
           "the commit must descend into all children unconditionally")
    # commit: iterates the whole state, then clears the dictionary
    cm = roles.canonical[sorted(roles.commit)[0]]
    body = body_without_docstring(cm)
    loc = Loc(file, cm.lineno, f"{base.name}.{cm.name}")
    ok = len(body) == 2 and isinstance(body[0], ast.For) and self_attr(body[0].iter) == roles.state_attr \
        and isinstance(body[1], ast.Assign) and self_attr(body[1].targets[0]) == roles.change_dict
    rep.ob("R12.2-commit-all-then-clear", ok, loc, cm.name,
           "the commit must visit every cnode of the state and then clear the registered changes")


def _enclosing_block(fn, stmt, parents):
    cur = stmt
    while id(cur) in parents:
        p = parents[id(cur)]
        for fld in ("body", "orelse"):
            b = getattr(p, fld, None)
            if isinstance(b, list) and any(x is cur for x in b) and isinstance(p, (ast.If, ast.FunctionDef)):
                return b
        cur = p
    return fn.body


def _top_index(block, stmt) -> int:
    for i, st in enumerate(block):
        if any(x is stmt for x in ast.walk(st)):
            return i
    return len(block)


def _top_level(fn, node) -> bool:
    return any(x is node for x in fn.body)


def check_creators(prog: Program, rep: Report) -> None:
    """R12.5: a randomly created composite object stores the centre its members were built around."""
    for c in prog.subclasses("RandomNodeCreator"):
        fn = c.methods.get("fill_root_node")
        levels = prog.resolve_method(c, "number_of_node_levels")
        two_level = levels is not None and any(isinstance(n, ast.Return) and isinstance(n.value, ast.Constant) and n.value.value == 2
                                               for n in ast.walk(levels[1]))
        if fn is None or not two_level:
            continue
        loc = Loc(c.file, fn.lineno, f"{c.name}.fill_root_node")
        root_sets = [n for n in ast.walk(fn) if isinstance(n, ast.Assign) and isinstance(n.targets[0], ast.Attribute)
                     and n.targets[0].attr == "value" and isinstance(n.value, ast.Call) and norm(n.value.func) == "Particle"]
        if len(root_sets) != 1:
            rep.ob("R12.5-root-is-centre", None, loc, c.name, "root particle assignment not recognised")
            continue
        call = root_sets[0].value
        pos = call.args[0] if call.args else next((k.value for k in call.keywords if k.arg == "position"), None)
        ok = isinstance(pos, ast.Name)
        why = f"the composite object's position is `{norm(pos)}`"
        if ok:
            defs = [n.value for n in ast.walk(fn) if isinstance(n, ast.Assign) and isinstance(n.targets[0], ast.Name)
                    and n.targets[0].id == pos.id]
            drawn = len(defs) == 1 and norm(defs[0]).endswith("random_position()")
            passed = any(isinstance(n, ast.Call) and isinstance(n.func, ast.Attribute) and isinstance(n.func.value, ast.Name)
                         and n.func.value.id == "self" and any(isinstance(a, ast.Name) and a.id == pos.id for a in list(n.args) + [k.value for k in n.keywords])
                         for n in ast.walk(fn))
            # ... or the members are built right here from its components (centre[d] +/- offset)
            built_here = any(isinstance(n, ast.Subscript) and isinstance(n.value, ast.Name) and n.value.id == pos.id
                             and isinstance(n.ctx, ast.Load) for n in ast.walk(fn))
            ok = drawn and (passed or built_here)
            why += f" (drawn from random_position: {drawn}; handed to the member-creation helper as centre: {passed}; members built from its components: {built_here})"
        rep.ob("R12.5-root-is-centre", ok, Loc(c.file, root_sets[0].lineno, f"{c.name}.fill_root_node"), root_sets[0],
               f"the stored position of a created composite object must be the very centre its point masses were placed around "
               f"(their nearest-image barycentre); computing it from the already wrapped member positions is wrong for a molecule "
               f"that straddles a box face: {why}")
        # the members are built symmetrically around that centre and each is put back into the box exactly once -- in the helper(s)
        # or in fill_root_node itself
        helpers = [n.func.attr for n in ast.walk(fn) if isinstance(n, ast.Call) and isinstance(n.func, ast.Attribute)
                   and isinstance(n.func.value, ast.Name) and n.func.value.id == "self"]
        scopes = [(hname, c.methods[hname]) for hname in helpers if hname in c.methods] + [("fill_root_node", fn)]
        for hname, h in scopes:
            wraps = [n for n in ast.walk(h) if isinstance(n, ast.Call) and norm(n.func).endswith("periodic_boundaries.correct_position")]
            particles = [n for n in ast.walk(h) if isinstance(n, ast.Call) and norm(n.func) == "Particle" and n is not call]
            if not particles:
                continue
            rep.ob("R12.5-members-wrapped", len(wraps) == len(particles) and len(particles) >= 2,
                   Loc(c.file, h.lineno, f"{c.name}.{hname}"), f"{len(particles)} members, {len(wraps)} wrapped",
                   "every created point mass must be put back into the box exactly once")


def analyse(src: Source) -> List[Report]:
    rep = Report(ID, src)
    rep.explain(
        "R12.1: must-dataflow over send_out_state of every handler deriving from LeavesEventHandler: no out-state is "
        "returned on a path with a leaf velocity written and not committed; at the commit a velocity change has been "
        "registered for what was written (fact REG_OK = no write since the last commit, or a register reached around it); "
        "where the written unit is syntactically c.value the register in the same block names the same cnode c. "
        "R7.1 (shared with C07): a leaf or composite velocity is cleared / replaced only after the stored state was time-sliced "
        "to the event time -- otherwise the composite object's stored position no longer matches the barycentre of its point "
        "masses. R12.2: shape of register / commit routines (identified by role): leaf weight applied once, walk over all "
        "ancestors, time-slice before the in-place change of a moving ancestor, event-time stamp for an ancestor that "
        "starts to move, recursion over all children, clear after commit. R12.3: velocity = None and time_stamp = None are "
        "always written together. R12.4: the mode switcher has an out-state routine for every mode. Not decided: the "
        "barycentre equalities on floats.")
    rep.assume("leaf collections iterated by a handler are non-empty (a loop that registers runs at least once when an "
               "earlier loop over the same units wrote velocities)")
    prog = Program(src)
    n = 0
    for h in concrete_handlers(prog):
        if not prog.is_subclass(h, "LeavesEventHandler"):
            continue
        hp = HandlerProtocol(prog, h, rep, ["R12.1", "R12.3", "R7.1"])
        hp.run()
        n += 1
    rep.unit("leaves_event_handlers", n)
    check_commit_routine(prog, rep)
    # the handlers work on copies: a branch handed out by the state handler shares no node with the global state, otherwise the
    # in-place writes of a handler (time stamps of moving members) reach composite objects that were not committed
    from .c13 import check_extraction_copies
    check_extraction_copies(prog, rep)
    # a candidate that survives an event which changed the motion of its units commits a stale (partial) composite object over the
    # current one: the stale-candidate reachability of every shipped configuration (rule family shared with C08)
    from ..config_graph import ConfigGraph
    from ..inifront import load_all
    cache_: Dict[str, HandlerFacts] = {}
    for cfg in load_all(prog):
        ConfigGraph(prog, cfg, cache_).explore(rep, ("C08",))
    # R12.3 also inside the commit routine and everywhere else in the package
    for mi, ci, fn in prog.functions():
        if not mi.file.startswith("jellyfysh/event_handler/"):
            continue
        parents = None
        for stmt, field, recv, elementwise, value in stores(fn):
            if field in ("velocity", "time_stamp") and isinstance(value, ast.Constant) and value.value is None:
                other = "time_stamp" if field == "velocity" else "velocity"
                parents = parents or parent_map(fn)
                block = None
                p = parents.get(id(stmt))
                for fld in ("body", "orelse", "finalbody"):
                    b = getattr(p, fld, None)
                    if isinstance(b, list) and any(x is stmt for x in b):
                        block = b
                ok = block is not None and any(
                    isinstance(s, ast.Assign) and isinstance(s.value, ast.Constant) and s.value.value is None
                    and any(norm(t) == f"{norm(recv)}.{other}" for t in s.targets) for s in block)
                rep.ob("R12.3-cowrite-static", ok, Loc(mi.file, stmt.lineno, f"{ci.name + '.' if ci else ''}{fn.name}"), stmt,
                       f"`{norm(recv)}.{field} = None` without `{norm(recv)}.{other} = None` in the same block: a unit is at "
                       f"rest exactly when both are absent")
    # R12.4 mode switcher exhaustiveness
    sw = prog.class_named("RootLeafUnitActiveSwitcher")
    disp = getattr_dispatch(prog, sw)
    enum = [c for c in sw.module.classes.values() if any(b == "Enum" for b in c.base_names)]
    members = []
    for e in enum:
        members += [n.targets[0].id for n in e.node.body if isinstance(n, ast.Assign) and isinstance(n.targets[0], ast.Name)]
    impls = disp.get("send_out_state", [])
    prefix = None
    for m in members:
        cands = [i for i in impls if i.endswith("_" + m) or i.endswith(m)]
        rep.ob("R12.4-mode-dispatch", len(cands) == 1, Loc(sw.file, sw.node.lineno, sw.name), f"mode {m} -> {cands}",
               f"the switcher selects its out-state routine by the name of the aim mode; mode `{m}` has {len(cands)} "
               f"routine(s)")
    rep.ob("R12.4-mode-dispatch-complete", len(impls) == len(members) and len(members) >= 2,
           Loc(sw.file, sw.node.lineno, sw.name), f"modes {members} / routines {impls}",
           "every aim mode needs exactly one out-state routine")
    check_creators(prog, rep)
    rep.expect_min("R12.5-root-is-centre", 2)
    rep.expect_min("R12.1-commit-before-return", 4)
    rep.expect_min("R12.1-register-before-commit", 4)
    rep.expect_min("R12.1-register-same-cnode", 4)    # 15 on the pinned tree; the sites shrink when handlers share helper routines
    rep.expect_min("R12.3-cowrite", 4)
    rep.expect_min("R12.3-cowrite-static", 2)     # 8 on the pinned tree; fewer when the clearing of a unit is one shared routine
    rep.expect_min("R12.2-slice-before-inplace", 1)
    rep.expect_min("R12.4-mode-dispatch", 2)
    # a composite object stays consistent only if every unit of an out-state is written back: the insertion rule of C13
    from .c13 import check_insert_complete
    check_insert_complete(prog, rep)
    return [rep]


EH = "jellyfysh/event_handler/"
AB = EH + "abstracts/abstracts.py"
MUTANTS = [
    Edit("exchange: register for the active cnode deleted", AB,
         "        self._register_velocity_change_leaf_cnode(cnode_with_active_unit,\n"
         "                                                  [-component for component in active_unit.velocity])\n", "", "R12.1"),
    Edit("exchange: commit deleted", AB,
         "        active_unit.time_stamp = None\n        self._commit_non_leaf_velocity_changes()\n",
         "        active_unit.time_stamp = None\n", "R12.1"),
    Edit("commit: no time-slice of the moving root", AB,
         "                self._time_slice_unit(cnode.value)\n", "", "R12.2"),
    Edit("commit: velocity cleared without the time stamp", AB,
         "                    unit.velocity = None\n                    unit.time_stamp = None\n",
         "                    unit.velocity = None\n", "R12.3"),
    Edit("register: weight applied twice", AB,
         "velocity_change = [component * leaf_cnode.weight for component in leaf_velocity_change]",
         "velocity_change = [component * leaf_cnode.weight * leaf_cnode.weight for component in leaf_velocity_change]",
         "R12.2"),
    Edit("register: only the direct parent", AB,
         "            parent_cnode = parent_cnode.parent\n", "            parent_cnode = None\n", "R12.2"),
    Edit("switcher: register deleted", EH + "root_leaf_unit_active_switcher.py",
         "                self._register_velocity_change_leaf_cnode(cnode, velocity_change)\n", "", "R12.1"),
    Edit("composite lifting: return before commit", EH + "abstracts/composite_objects.py",
         "                self._register_velocity_change_leaf_cnode(leaf_cnode, velocity)\n        self._commit_non_leaf_velocity_changes()\n",
         "                self._register_velocity_change_leaf_cnode(leaf_cnode, velocity)\n", "R12.1"),
    Edit("start of run: root velocity never committed", EH + "initial_chain_start_of_run_event_handler.py",
         "        self._commit_non_leaf_velocity_changes()\n", "", "R12.1"),
    Edit("end of chain: registers nothing", EH + "abstracts/end_of_chain_event_handler.py",
         "            self._register_velocity_change_leaf_cnode(self._leaf_cnodes[index], velocity_change)\n",
         "            pass\n", "R12.1"),
    Edit("commit: root at rest stamped with the shared event time object", AB,
         "                unit.time_stamp = copy(self._event_time)\n", "                unit.time_stamp = None\n", "R12"),
    Edit("switcher: mode renamed without routine", EH + "root_leaf_unit_active_switcher.py",
         "    def _send_out_state_root_unit_active(", "    def _send_out_state_root_active(", "R12.4"),
]
MUTANTS.append(Edit("water: molecule position from the wrapped atoms",
                    "jellyfysh/input_output_handler/input_handler/random_node_creator/water_random_node_creator.py",
                    "        node.value = Particle(position=molecule_center)",
                    "        node.value = Particle(position=[sum(particle.position[d] for particle in particles) / len(particles)\n"
                    "                                        for d in range(setting.dimension)])", "R12.5"))
MUTANTS.append(Edit("root-mode pair handler: no time-slice of the new in-state", EH + "root_unit_active_two_leaf_unit_event_handler.py",
                    "        self._store_in_state(composite_objects_root_cnodes)\n        self._time_slice_all_units_in_state()\n",
                    "        self._store_in_state(composite_objects_root_cnodes)\n", "R7.1"))
TWINS = [
    Edit("exchange: write before register", AB,
         "        self._register_velocity_change_leaf_cnode(target_cnode, active_unit.velocity)\n"
         "        target_unit.velocity = active_unit.velocity\n        target_unit.time_stamp = active_unit.time_stamp\n",
         "        target_unit.velocity = active_unit.velocity\n        target_unit.time_stamp = active_unit.time_stamp\n"
         "        self._register_velocity_change_leaf_cnode(target_cnode, active_unit.velocity)\n"),
    Edit("commit: membership without keys()", AB,
         "if unit.identifier in self._non_leaf_velocity_changes.keys():", "if unit.identifier in self._non_leaf_velocity_changes:"),
]
MUTANTS += [
    Edit("composite object set to rest by an exact zero test", AB, "if all(abs(component) < 1.0e-13 for component in unit.velocity):",
         "if not any(unit.velocity):", "R12.2"),
]
