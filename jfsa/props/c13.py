"""
C13 -- in-states are isolated copies; only commits change the global state.

Decided: R13.1 escape analysis of extraction (every mutable field of every Unit built on the extraction path is a copy;
branch = ancestors + node + all descendants); R13.2 consumers of the uncopied full state are read-only; R13.3 who may
change the global stores and who may call them; R13.4 insertion covers every field and every child; R13.5 handlers mutate
only fresh in-states; R13.6 a velocity object is either moved (source cleared) or copied; R13.7 shape of the
independent-active rule.  Not decided: non-interference over arbitrary dynamic operation sequences.
"""
import ast
from typing import Dict, List, Optional, Set, Tuple

from ..core import AnalysisError, Loc, Report, Source, norm
from ..handlers import FnRef, closure, concrete_handlers, parent_map, stores
from ..protocol import HandlerProtocol, _is_copy_of
from ..pyfront import ClassInfo, Program, body_without_docstring, dotted, param_names, self_attr
from ..guards import atoms, path_conditions
from ..normalize import canon, flat
from ..resolve import Resolver, split_atom
from ..selftest import Edit
from ..writers import all_field_writes, taint_from_params

ID = "C13"
MUTABLE_UNIT_ARGS = {1: "position", 3: "velocity", 4: "time_stamp"}


def _unit_ctor_args(call: ast.Call, unit_params: List[str]) -> Dict[str, ast.AST]:
    out: Dict[str, ast.AST] = {}
    for i, a in enumerate(call.args):
        if i < len(unit_params):
            out[unit_params[i]] = a
    for k in call.keywords:
        if k.arg:
            out[k.arg] = k.value
    return out


def _full_traversal(prog: Program, cls: ClassInfo, it: ast.AST, params: List[str]) -> bool:
    """`it` is g(<parameter>) for a generator g that yields every node of its argument and, recursively, of the node's children"""
    if not (isinstance(it, ast.Call) and len(it.args) == 1 and norm(it.args[0]) in params):
        return False
    if norm(it.func) == "__subtree_nodes__":
        return True   # normal form of a work-list traversal over all nodes below the parameter
    name = it.func.id if isinstance(it.func, ast.Name) else (it.func.attr if isinstance(it.func, ast.Attribute) else None)
    g = cls.module.functions.get(name) if isinstance(it.func, ast.Name) else cls.methods.get(name) if name else None
    if g is None:
        return False
    ps = [a.arg for a in g.args.args if a.arg not in ("self", "cls")]
    loops = [n for n in body_without_docstring(g) if isinstance(n, ast.For)]
    if len(ps) != 1 or len(loops) != 1 or norm(loops[0].iter) != ps[0] or not isinstance(loops[0].target, ast.Name):
        return False
    v = loops[0].target.id
    ys = [n for n in ast.walk(loops[0]) if isinstance(n, ast.Yield) and n.value is not None and norm(n.value) == v]
    rec = [n for n in ast.walk(loops[0]) if isinstance(n, ast.YieldFrom) and isinstance(n.value, ast.Call) and len(n.value.args) == 1
           and norm(n.value.args[0]) == f"{v}.children" and norm(n.value.func).split(".")[-1] == name]
    conditional = any(isinstance(n, (ast.If, ast.Break, ast.Continue, ast.Return)) for n in ast.walk(loops[0]))
    return len(ys) == 1 and len(rec) == 1 and not conditional


def check_extraction_copies(prog: Program, rep: Report):
    """R13.1: every Unit built on the extraction path copies position, velocity and time stamp (also through helper parameters)."""
    sh = prog.class_named("TreeStateHandler")
    unit = prog.class_named("Unit")
    unit_params = param_names(unit.methods["__init__"])
    entries = [FnRef(*prog.resolve_method(sh, m)) for m in ("extract_from_global_state", "extract_active_global_state")
               if prog.resolve_method(sh, m)]
    if len(entries) != 2:
        raise AnalysisError("TreeStateHandler extraction entry points not found")
    reach = closure(prog, sh, entries)
    n_units = 0
    for ref in reach:
        ps = param_names(ref.fn)
        RF = Resolver(ref.fn)
        for call in [n for n in ast.walk(ref.fn) if isinstance(n, ast.Call) and isinstance(n.func, ast.Name)
                     and n.func.id == "Unit"]:
            n_units += 1
            args = _unit_ctor_args(call, unit_params)
            for fld in ("position", "velocity", "time_stamp"):
                a = args.get(fld)
                if isinstance(a, ast.Name) and a.id not in ps:
                    # a local that holds the copy: its (reaching) definition at this construction
                    d = RF._reaching(a.id, RF.paths.get(id(a)))
                    if isinstance(d, ast.Call):
                        a = d
                loc = Loc(ref.file, call.lineno, ref.qual)
                ok = False
                why = f"Unit.{fld} is `{norm(a) if a is not None else 'missing'}`"
                if isinstance(a, ast.Call) and isinstance(a.func, ast.Name) and len(a.args) == 1:
                    if a.func.id in ("copy", "deepcopy", "list"):
                        ok = True
                    elif a.func.id in ps:
                        # copy_method parameter: every call of this function on the extraction path must bind it to copy
                        bound = _bindings_on_path(prog, sh, reach, ref, a.func.id)
                        ok = bool(bound) and all(b in ("copy", "deepcopy") for b in bound)
                        why += f"; `{a.func.id}` is bound to {sorted(bound)} on the extraction path"
                rep.ob("R13.1-copied-field", ok, loc, f"{ref.fn.name}: Unit.{fld} = {norm(a) if a is not None else None}",
                       f"a branch handed out for an identifier must not alias the stored {fld}: {why}")
    rep.unit("unit_constructions_on_extraction_path", n_units)
    return entries


def check_insert_complete(prog: Program, rep: Report) -> None:
    """R13.4: insert_into_global_state writes every field of every unit of the out-state, unconditionally (shared with C12, C17)"""
    sh = prog.class_named("TreeStateHandler")
    if sh is None:
        raise AnalysisError("TreeStateHandler not found")
    file = sh.file
    # ---- R13.4 insert complete ----------------------------------------------------------------------------------------------
    ins = sh.methods.get("insert_into_global_state")
    if ins is None:
        raise AnalysisError("insert_into_global_state not found")
    ins = canon(prog, sh, ins)
    loops = [n for n in body_without_docstring(ins) if isinstance(n, ast.For)]
    loc = Loc(file, ins.lineno, f"{sh.name}.{ins.name}")
    if len(loops) != 1:
        rep.ob("R13.4-insert-complete", None, loc, ins.name, "idiom not recognised")
    else:
        lp = loops[0]
        var = norm(lp.target)
        txt = " ; ".join(norm(s) for s in lp.body)
        conds = {
            "position written": f"_physical_state.set(" in txt and f"{var}.value.position" in txt,
            "velocity written": f"{var}.value.velocity" in txt and "_lifting_state.set(" in txt,
            "time stamp written": f"{var}.value.time_stamp" in txt,
            "children inserted": f"insert_into_global_state({var}.children)" in " ; ".join(norm(x) for s_ in lp.body for x in ast.walk(s_) if isinstance(x, ast.Call)) or _full_traversal(prog, sh, lp.iter, param_names(ins)),
            "iterates the whole out-state": norm(lp.iter) in param_names(ins) or _full_traversal(prog, sh, lp.iter, param_names(ins)),
            "keyed by the cnode's identifier": f"{var}.value.identifier" in txt,
        }
        for what, good in conds.items():
            rep.ob("R13.4-insert-complete", bool(good), Loc(file, lp.lineno, loc.qual), f"insert: {what}",
                   f"insertion must cover every field and every child: not {what}")
        def empty_guard(s: ast.stmt) -> bool:
            """`if <seq>:` (also `len(<seq>) > 0`, `<seq> != []`) around nothing but the recursion on <seq>: a no-op on an empty sequence"""
            if not isinstance(s, ast.If) or s.orelse or len(s.body) != 1 or not isinstance(s.body[0], ast.Expr):
                return False
            c = s.body[0].value
            if not (isinstance(c, ast.Call) and isinstance(c.func, ast.Attribute) and c.func.attr == "insert_into_global_state" and len(c.args) == 1):
                return False
            a, t = norm(c.args[0]), norm(s.test)
            return t in (a, f"len({a}) > 0", f"len({a}) != 0", f"{a} != []", f"len({a})", f"0 < len({a})")
        top_level = all(not isinstance(s, (ast.If, ast.Try)) or empty_guard(s) for s in lp.body)
        rep.ob("R13.4-insert-unconditional", top_level, Loc(file, lp.lineno, loc.qual), "insert: no conditional skip",
               "exactly the inserted values must be read back: no field may be skipped conditionally")


def analyse(src: Source) -> List[Report]:
    rep = Report(ID, src)
    rep.explain(
        "R13.1: on everything reachable from extract_from_global_state / extract_active_global_state every Unit(...) gets "
        "position, velocity and time stamp as copy(...) of the stored object (also through the copy_method parameter, whose "
        "binding on this path is copy); the branch contains the ancestors (prefix loop), the node and all descendants "
        "(recursive helper over children). R13.2: the consumers of the uncopied extract_global_state() -- OutputHandler.write "
        "and InternalState.initialize implementations -- have no write effect on units derived from their state parameter. "
        "R13.3: positions of global nodes are written only by PhysicalState.set, the lifting dictionaries only inside the "
        "lifting state; both setters are called only by insert_into_global_state, which is called only from the commit step "
        "of the run loops (and its own recursion). R13.4: insertion writes position, velocity and time stamp of every cnode "
        "and recurses into its children. R13.5 handlers only mutate in-states stored for the current event. R13.6 a "
        "velocity list handed from one unit to another is moved (source set to None in the same block) or copied. R13.7 "
        "the independent-active rule yields the composite object iff all its members move, else the moving members.")
    prog = Program(src)
    sh = prog.class_named("TreeStateHandler")
    unit = prog.class_named("Unit")
    unit_params = param_names(unit.methods["__init__"])
    file = sh.file
    entries = check_extraction_copies(prog, rep)
    efg = entries[0].fn
    def over_levels(it: ast.AST) -> bool:
        """the loop visits every level 1 .. len(identifier) - 1: range(1, len(identifier)), identifier[1:], enumerate(identifier[1:], ..)"""
        if isinstance(it, ast.Call) and norm(it.func) == "enumerate" and it.args:
            return over_levels(it.args[0])
        if isinstance(it, ast.Call) and norm(it.func) == "range" and len(it.args) == 2:
            return norm(it.args[0]) == "1" and norm(it.args[1]) == "len(identifier)"
        if isinstance(it, ast.Call) and norm(it.func).split(".")[-1] == "islice" and len(it.args) in (2, 3) and norm(it.args[0]) == "identifier":
            return norm(it.args[1]) == "1" and (len(it.args) == 2 or norm(it.args[2]) == "None")
        return isinstance(it, ast.Subscript) and norm(it.value) == "identifier" and isinstance(it.slice, ast.Slice) \
            and it.slice.lower is not None and norm(it.slice.lower) == "1" and it.slice.upper is None and it.slice.step is None
    efg_raw = efg
    efg = canon(prog, sh, efg)          # the chain of ancestors / the attachment of the descendants may live in private helpers
    prefix_loops = [n for n in ast.walk(efg) if isinstance(n, ast.For) and over_levels(n.iter)]
    rep.ob("R13.1-ancestors", len(prefix_loops) == 1,
           Loc(file, efg.lineno, entries[0].qual), "prefix loop over identifier levels",
           "the branch must contain every ancestor level of the identifier (loop over the levels 1 .. len(identifier) - 1)")
    child_loops = [n for form_ in (efg, efg_raw) for n in ast.walk(form_) if isinstance(n, ast.For) and ".children" in norm(n.iter)]
    rec_ok = False
    helper_name = None
    for lp in child_loops:
        for c in ast.walk(lp):
            if isinstance(c, ast.Call) and isinstance(c.func, ast.Attribute) and isinstance(c.func.value, ast.Name) \
                    and c.func.value.id == "self":
                helper = sh.methods.get(c.func.attr)
                if helper is not None:
                    helper_name = helper.name
                    inner = [n for n in ast.walk(helper) if isinstance(n, ast.For) and ".children" in norm(n.iter)]
                    rec = [n for n in ast.walk(helper) if isinstance(n, ast.Call) and isinstance(n.func, ast.Attribute)
                           and n.func.attr == helper.name]
                    adds = [n for n in ast.walk(helper) if isinstance(n, ast.Call) and isinstance(n.func, ast.Attribute)
                            and n.func.attr == "add_child"]
                    rec_ok = bool(inner) and bool(rec) and bool(adds)
                    # the same helper written with an explicit work list (normal form: an unconditional loop over all nodes below
                    # its node parameter that attaches every copy to its parent's copy)
                    hps = [a.arg for a in helper.args.args if a.arg not in ("self", "cls")]
                    whole = [n for n in body_without_docstring(helper) if isinstance(n, ast.For) and isinstance(n.iter, ast.Call)
                             and norm(n.iter.func) == "__subtree_nodes__" and len(n.iter.args) == 1 and isinstance(n.iter.args[0], ast.List)
                             and len(n.iter.args[0].elts) == 1 and norm(n.iter.args[0].elts[0]) in hps]
                    if not rec_ok and len(whole) == 1:
                        rec_ok = any(isinstance(x, ast.Call) and isinstance(x.func, ast.Attribute) and x.func.attr == "add_child"
                                     for x in ast.walk(whole[0]))
    if not rec_ok:
        # the helper read in place: under a loop over the children, an unconditional loop over all nodes below the child that attaches copies
        for lp in child_loops:
            for n in ast.walk(lp):
                if isinstance(n, ast.For) and isinstance(n.iter, ast.Call) and norm(n.iter.func) == "__subtree_nodes__" \
                        and any(isinstance(x, ast.Call) and isinstance(x.func, ast.Attribute) and x.func.attr == "add_child" for x in ast.walk(lp)):
                    rec_ok = True
    rep.ob("R13.1-descendants", rec_ok, Loc(file, efg.lineno, entries[0].qual), f"recursive helper {helper_name}",
           "the branch must contain all descendants of the node (recursive construction over children)")
    act = entries[1].fn
    rets = [n for n in ast.walk(act) if isinstance(n, ast.Return)]
    # the returned list holds extract_from_global_state(i) for every independently lifted identifier i, nothing else: written as
    # a comprehension or as a list filled in a loop over the generator
    ok = False
    if len(rets) == 1:
        rv = rets[0].value

        def per_identifier(elt: ast.AST, var: ast.AST, it: ast.AST, filtered: bool) -> bool:
            return isinstance(elt, ast.Call) and norm(elt.func).endswith("extract_from_global_state") and len(elt.args) == 1 \
                and norm(elt.args[0]) == norm(var) and norm(it).endswith("yield_independent_lifted_identifiers()") and not filtered
        if isinstance(rv, ast.Call) and isinstance(rv.func, ast.Name) and rv.func.id == "list" and len(rv.args) == 1 \
                and isinstance(rv.args[0], (ast.GeneratorExp, ast.ListComp)):
            rv = rv.args[0]
        if isinstance(rv, (ast.ListComp, ast.GeneratorExp)) and len(rv.generators) == 1:
            g = rv.generators[0]
            ok = per_identifier(rv.elt, g.target, g.iter, bool(g.ifs))
        elif isinstance(rv, ast.Name):
            inits = [a for a in ast.walk(act) if isinstance(a, ast.Assign) and norm(a.targets[0]) == rv.id]
            apps = [(lp, c) for lp in ast.walk(act) if isinstance(lp, ast.For) for c in ast.walk(lp) if isinstance(c, ast.Call)
                    and isinstance(c.func, ast.Attribute) and c.func.attr == "append" and norm(c.func.value) == rv.id]
            other = [c for c in ast.walk(act) if isinstance(c, ast.Call) and isinstance(c.func, ast.Attribute) and norm(c.func.value) == rv.id
                     and c.func.attr != "append"]
            if len(inits) == 1 and isinstance(inits[0].value, ast.List) and not inits[0].value.elts and len(apps) == 1 and not other:
                lp, c = apps[0]
                conds = path_conditions(lp.body, c) or []
                ok = per_identifier(c.args[0], lp.target, lp.iter, bool(conds))
    rep.ob("R13.7-active-part", ok, Loc(file, act.lineno, entries[1].qual), rets[0] if rets else act.name,
           "the active part must be a copied branch for exactly the independently lifted identifiers")
    # ---- R13.7 independent-active rule ---------------------------------------------------------------------------------
    ls = prog.class_named("TreeLiftingState")
    yi = ls.methods.get("yield_independent_lifted_identifiers")
    if yi is None:
        rep.ob("R13.7-independent-rule", None, Loc(ls.file, ls.node.lineno, ls.name), "yield_independent_lifted_identifiers",
               "method not found")
    else:
        ifs = [n for n in ast.walk(yi) if isinstance(n, ast.If) and "number_of_nodes_per_root_node" in norm(n.test)]
        ok = False
        if len(ifs) == 1:
            at = atoms(ifs[0].test)
            sp = split_atom(at[0]) if len(at) == 1 else None
            if sp is not None and {sp[0], sp[2]} - {"setting.number_of_nodes_per_root_node"} and sp[1] in ("==", "!="):
                count = ({sp[0], sp[2]} - {"setting.number_of_nodes_per_root_node"}).pop()
                all_move, some_move = (ifs[0].body, ifs[0].orelse) if sp[1] == "==" else (ifs[0].orelse, ifs[0].body)
                then_y = [n for n in ast.walk(ast.Module(body=all_move, type_ignores=[])) if isinstance(n, ast.Yield)]
                else_y = [n for n in ast.walk(ast.Module(body=some_move, type_ignores=[])) if isinstance(n, ast.YieldFrom)]
                ok = count.startswith("len(") and len(then_y) == 1 and len(else_y) == 1 and norm(else_y[0].value) == count[4:-1]
        rep.ob("R13.7-independent-rule", ok, Loc(ls.file, yi.lineno, f"{ls.name}.{yi.name}"),
               ifs[0].test if ifs else yi.name,
               "composite object if all of its members move (count == nodes per root), else exactly the moving members")
    # the simple generator (every lifted identifier is independent) may replace the tree rule only for one node level
    init_ls = ls.methods.get("__init__")
    rebinds = []
    if init_ls is not None:
        for n in ast.walk(init_ls):
            if isinstance(n, ast.If):
                for st in n.body:
                    if isinstance(st, ast.Assign) and self_attr(st.targets[0]) == "yield_independent_lifted_identifiers":
                        rebinds.append((n, st))
    for guard, st in rebinds:
        t = norm(guard.test)
        rep.ob("R13.7-simple-rule-only-for-one-level", t in ("setting.number_of_node_levels == 1", "1 == setting.number_of_node_levels"),
               Loc(ls.file, st.lineno, f"{ls.name}.__init__"), guard.test,
               "the shortcut 'every lifted identifier moves independently' is valid only when there is a single node level; "
               "with composite objects (even of one point mass) a moving object would be reported twice, as itself and as its member")
    # ---- R13.2 read-only consumers ---------------------------------------------------------------------------------------
    consumers: List[Tuple[ClassInfo, ast.FunctionDef]] = []
    for c in prog.subclasses("OutputHandler"):
        fn = c.methods.get("write")
        if fn is not None and any("Node" in norm(a.annotation) for a in fn.args.args if a.annotation is not None):
            consumers.append((c, fn))
    for c in prog.subclasses("InternalState"):
        fn = c.methods.get("initialize")
        if fn is not None and param_names(fn):
            consumers.append((c, fn))
    for c, fn in consumers:
        refs = closure(prog, c, [FnRef(c, fn)])
        bad = []
        for ref in refs:
            prov = taint_from_params(ref.fn)
            for stmt, field, recv, elementwise, value in stores(ref.fn):
                from ..writers import root_name
                r = root_name(recv)
                if r and prov.get(r) == "param":
                    bad.append((ref, stmt))
        rep.ob("R13.2-read-only-consumer", not bad, Loc(c.file, fn.lineno, f"{c.name}.{fn.name}"),
               f"{c.name}.{fn.name} does not write units of the state it is given",
               f"the full global state is handed out without copying; this consumer writes a unit field derived from its "
               f"parameter: {[norm(s) for _, s in bad][:3]}")
    rep.unit("full_state_consumers", len(consumers))
    # ---- R13.3 who may write / call ----------------------------------------------------------------------------------------
    writes = all_field_writes(prog)
    for w in writes:
        if w.provenance == "self" and w.field in ("position", "velocity", "time_stamp") and w.ci is not None \
                and not prog.is_subclass(w.ci, "EventHandler") and not w.fn.name == "__init__" \
                and not w.mi.file.startswith("jellyfysh/input_output_handler/"):
            ok = prog.is_subclass(w.ci, "PhysicalState") and w.fn.name == "set"
            rep.ob("R13.3-global-position-writer", ok, Loc(w.mi.file, w.stmt.lineno, w.qual), w.stmt,
                   "a field of a globally stored node is written outside PhysicalState.set")
    lifting_attrs = set()
    init = ls.methods.get("__init__")
    if init:
        lifting_attrs = {self_attr(n.targets[0]) for n in ast.walk(init) if isinstance(n, ast.Assign) and self_attr(n.targets[0])
                         and isinstance(n.value, (ast.Dict, ast.DictComp))}
    allowed_mutators = {"set", "_delete", "__init__"}
    for mi, ci, fn in prog.functions():
        for n in ast.walk(fn):
            tgt = None
            if isinstance(n, (ast.Assign, ast.Delete)):
                for t in (n.targets if hasattr(n, "targets") else []):
                    if isinstance(t, ast.Subscript) and self_attr(t.value) in lifting_attrs:
                        tgt = t
            if isinstance(n, ast.Call) and isinstance(n.func, ast.Attribute) and n.func.attr in ("add", "remove", "pop", "clear", "update", "discard") \
                    and (self_attr(n.func.value) in lifting_attrs or (isinstance(n.func.value, ast.Subscript)
                                                                      and self_attr(n.func.value.value) in lifting_attrs)):
                tgt = n
            if tgt is not None and ci is not None and (ci is ls or prog.is_subclass(ci, "LiftingState")):
                rep.ob("R13.3-lifting-store-writer", fn.name in allowed_mutators, Loc(mi.file, n.lineno, f"{ci.name}.{fn.name}"),
                       n, "the lifting dictionaries are changed outside set / _delete")
    # the setters REPLACE what is stored for an identifier, they never change a stored object in place: inserted values are kept by
    # reference, so two identifiers may share one list / Time object after a commit, and an in-place update of one entry would change
    # the other identifier without a commit of it
    MUT = ("update", "append", "extend", "insert", "clear", "sort", "reverse", "pop", "remove", "add", "discard", "setdefault")
    n_set = 0
    for mi, ci, fn in prog.functions():
        if ci is None or fn.name != "set" or not (prog.is_subclass(ci, "LiftingState") or prog.is_subclass(ci, "PhysicalState")):
            continue
        n_set += 1
        from ..writers import root_name
        stored: set = set()
        for _ in range(3):
            for a in ast.walk(fn):
                if isinstance(a, ast.Assign) and len(a.targets) == 1:
                    names_ = [x.id for x in ast.walk(a.targets[0]) if isinstance(x, ast.Name) and isinstance(x.ctx, ast.Store)]
                    src_root = root_name(a.value) if not isinstance(a.value, ast.Call) else None
                    if names_ and isinstance(a.targets[0], (ast.Name, ast.Tuple, ast.List)) and (
                            (src_root == "self" and isinstance(a.value, ast.Subscript)) or src_root in stored):
                        stored.update(names_)
        bad_ = []
        for x in ast.walk(fn):
            if isinstance(x, ast.Subscript) and isinstance(x.ctx, (ast.Store, ast.Del)) and isinstance(x.value, ast.Name) and x.value.id in stored:
                bad_.append(x)
            if isinstance(x, ast.Call) and isinstance(x.func, ast.Attribute) and x.func.attr in MUT and isinstance(x.func.value, ast.Name) \
                    and x.func.value.id in stored:
                bad_.append(x)
            if isinstance(x, ast.AugAssign) and isinstance(x.target, ast.Name) and x.target.id in stored:
                bad_.append(x)
        rep.ob("R13.3-setter-replaces", not bad_, Loc(mi.file, (bad_[0].lineno if bad_ else fn.lineno), f"{ci.name}.set"),
               bad_[0] if bad_ else f"{ci.name}.set: stored values are replaced, not mutated",
               "the setter changes an object it read from the store in place: values are stored by reference, so every other identifier "
               "(or in-state) that shares the object changes without being committed")
    rep.expect_min("R13.3-setter-replaces", 2)
    # ... and they store the inserted value itself (or a plain copy): what is read back after a commit is exactly what was inserted
    for mi, ci, fn in prog.functions():
        if ci is None or fn.name != "set" or not (prog.is_subclass(ci, "LiftingState") or prog.is_subclass(ci, "PhysicalState")):
            continue
        fc = canon(prog, ci, fn)
        value_params = param_names(fc)[1:]

        def identity_like(e: ast.AST, p_: str) -> Optional[bool]:
            """True: e is p_ / a copy of p_ / a display holding it; False: computed from p_; None: does not involve p_"""
            if not any(isinstance(x, ast.Name) and x.id == p_ for x in ast.walk(e)):
                return None
            if isinstance(e, ast.Name):
                return True
            if isinstance(e, (ast.Tuple, ast.List)):
                rs = [identity_like(x, p_) for x in e.elts]
                return False if False in rs else True
            if isinstance(e, ast.Call) and len(e.args) == 1 and not e.keywords and norm(e.func).split(".")[-1] in ("copy", "list", "tuple", "deepcopy"):
                return identity_like(e.args[0], p_)
            if isinstance(e, ast.Subscript) and isinstance(e.slice, ast.Slice) and e.slice.lower is None and e.slice.upper is None:
                return identity_like(e.value, p_)
            if isinstance(e, ast.IfExp):
                rs = [identity_like(x, p_) for x in (e.body, e.orelse)]
                return False if False in rs else True
            return False
        for p_ in value_params:
            stores_ = [a for a in ast.walk(fc) if isinstance(a, ast.Assign) and any(isinstance(t, (ast.Attribute, ast.Subscript)) for t in a.targets)]
            verdicts = [(identity_like(a.value, p_), a) for a in stores_]
            computed = [a for v_, a in verdicts if v_ is False]
            if not any(v_ is not None for v_, _ in verdicts):
                continue
            rep.ob("R13.3-setter-stores-given-value", not computed, Loc(mi.file, (computed[0].lineno if computed else fn.lineno), f"{ci.name}.set"),
                   computed[0] if computed else f"{ci.name}.set({p_}): stored as given",
                   f"the stored value is computed from `{p_}` instead of being `{p_}` itself: the global state no longer reads back what a commit inserted")
    # callers of <x>._physical_state.set / _lifting_state.set and of insert_into_global_state
    for mi, ci, fn in prog.functions():
        if mi.file.startswith("jellyfysh/input_output_handler/output_handler/") and False:
            continue
        for n in ast.walk(fn):
            if not (isinstance(n, ast.Call) and isinstance(n.func, ast.Attribute)):
                continue
            if n.func.attr == "set" and isinstance(n.func.value, ast.Attribute) and n.func.value.attr in ("_physical_state", "_lifting_state"):
                ok = ci is not None and prog.is_subclass(ci, "StateHandler") and fn.name == "insert_into_global_state"
                rep.ob("R13.3-set-callers", ok, Loc(mi.file, n.lineno, f"{ci.name if ci else ''}.{fn.name}"), n,
                       "the global stores are set outside insert_into_global_state")
            if n.func.attr == "insert_into_global_state":
                ok = ci is not None and ((prog.is_subclass(ci, "Mediator") and fn.name == "run")
                                         or (prog.is_subclass(ci, "StateHandler") and fn.name == "insert_into_global_state"))
                if ci is not None and prog.is_subclass(ci, "Mediator") and fn.name != "run":
                    # helper of run: accepted when only reachable from run
                    callers = [m for m in ci.methods.values() if any(isinstance(c, ast.Call) and isinstance(c.func, ast.Attribute)
                                                                     and c.func.attr == fn.name for c in ast.walk(m))]
                    ok = bool(callers) and all(m.name == "run" for m in callers)
                rep.ob("R13.3-insert-callers", ok, Loc(mi.file, n.lineno, f"{ci.name if ci else ''}.{fn.name}"), n,
                       "insert_into_global_state is called outside the commit step of a mediator's run loop: between two "
                       "commits the global state must not change")
    check_insert_complete(prog, rep)
    # ---- R13.5 / R13.6 -----------------------------------------------------------------------------------------------------------
    for h in concrete_handlers(prog):
        hp = HandlerProtocol(prog, h, rep, ["R8.5"])
        hp.run()
    seen = set()
    def _clears_through_call(s_: ast.stmt, src_recv_: str, field_: str, mi_, ci_) -> bool:
        """`deactivate(src)`: a call with the source unit as argument to a routine that sets `<parameter>.<field> = None`"""
        if not (isinstance(s_, ast.Expr) and isinstance(s_.value, ast.Call)):
            return False
        c_ = s_.value
        pos_ = [i_ for i_, a_ in enumerate(c_.args) if norm(a_) == src_recv_]
        if not pos_:
            return False
        callee = None
        if isinstance(c_.func, ast.Name):
            r_ = prog.resolve_name(mi_, c_.func.id)
            callee = r_[2] if isinstance(r_, tuple) and len(r_) == 3 and r_[0] == "func" else None
            skip_ = 0
        elif isinstance(c_.func, ast.Attribute) and isinstance(c_.func.value, ast.Name) and c_.func.value.id == "self" and ci_ is not None:
            r_ = prog.resolve_method(ci_, c_.func.attr)
            callee = r_[1] if r_ else None
            skip_ = 1
        if not isinstance(callee, ast.FunctionDef):
            return False
        ps_ = [a_.arg for a_ in callee.args.args][skip_:]
        if pos_[0] >= len(ps_):
            return False
        pn_ = ps_[pos_[0]]
        return any(isinstance(a_, ast.Assign) and isinstance(a_.value, ast.Constant) and a_.value.value is None
                   and any(norm(t_) == f"{pn_}.{field_}" for t_ in a_.targets) for a_ in ast.walk(callee))
    for mi, ci, fn in prog.functions():
        if ci is None and not mi.file.startswith("jellyfysh/event_handler/"):
            continue
        if ci is not None and not prog.is_subclass(ci, "EventHandler"):
            continue
        fn = canon(prog, ci, fn, helpers=False) if ci is not None else fn
        parents = parent_map(fn)
        for stmt, field, recv, elementwise, value in stores(fn):
            if field not in ("velocity", "time_stamp", "position") or value is None or elementwise:
                continue
            if isinstance(value, ast.Attribute) and value.attr == field and norm(value.value) != norm(recv):
                # direct aliasing of another unit's mutable field: must be a move
                p = parents.get(id(stmt))
                block = None
                for fld in ("body", "orelse", "finalbody"):
                    b = getattr(p, fld, None)
                    if isinstance(b, list) and any(x is stmt for x in b):
                        block = b
                src_recv = norm(value.value)
                moved = block is not None and any(
                    (isinstance(s, ast.Assign) and isinstance(s.value, ast.Constant) and s.value.value is None
                     and any(norm(t) == f"{src_recv}.{field}" for t in s.targets)) or _clears_through_call(s, src_recv, field, mi, ci)
                    for s in block[block.index(stmt):])
                rep.ob("R13.6-move-or-copy", moved, Loc(mi.file, stmt.lineno, f"{ci.name + '.' if ci else ''}{fn.name}"), stmt,
                       f"`{norm(recv)}.{field}` aliases `{src_recv}.{field}` without the source being cleared in the same "
                       f"block: two units of an out-state would share one mutable object")
    rep.expect_min("R13.1-copied-field", 3)
    rep.expect_min("R13.2-read-only-consumer", 6)
    rep.expect_min("R13.3-set-callers", 2)
    rep.expect_min("R13.3-insert-callers", 2)
    rep.expect_min("R13.3-global-position-writer", 1)
    rep.expect_min("R13.3-lifting-store-writer", 3)
    rep.expect_min("R13.4-insert-complete", 6)
    rep.expect_min("R13.6-move-or-copy", 2)
    rep.expect_min("R8.5-fresh-state", 40)
    return [rep]


def _bindings_on_path(prog: Program, sh: ClassInfo, reach: List[FnRef], ref: FnRef, pname: str, seen: Optional[Set[Tuple[str, str]]] = None) -> Set[str]:
    """
    How is parameter `pname` of ref bound at the call sites located in functions of the extraction path?  A caller that passes
    one of its own parameters through is followed to its callers (transitively).
    """
    seen = seen if seen is not None else set()
    if (ref.fn.name, pname) in seen:
        return set()
    seen.add((ref.fn.name, pname))
    ps = [a.arg for a in ref.fn.args.args]
    idx = ps.index(pname) - 1  # minus self
    defaults = ref.fn.args.defaults
    out: Set[str] = set()
    for caller in reach:
        for c in ast.walk(caller.fn):
            if isinstance(c, ast.Call) and isinstance(c.func, ast.Attribute) and c.func.attr == ref.fn.name \
                    and isinstance(c.func.value, ast.Name) and c.func.value.id == "self":
                val = None
                if idx < len(c.args):
                    val = c.args[idx]
                for k in c.keywords:
                    if k.arg == pname:
                        val = k.value
                if val is None:
                    out.add("<default>")
                elif isinstance(val, ast.Name) and val.id in [a.arg for a in caller.fn.args.args]:
                    if caller.fn is ref.fn and val.id == pname:
                        continue  # recursion passes the parameter through
                    out |= _bindings_on_path(prog, sh, reach, caller, val.id, seen)
                else:
                    out.add(norm(val))
    return out


SH = "jellyfysh/state_handler/tree_state_handler.py"
EH = "jellyfysh/event_handler/"
MUTANTS = [
    Edit("extract: velocity not copied", SH,
         "old_node.value.charge,\n                    copy(velocity), copy(time_stamp))",
         "old_node.value.charge,\n                    velocity, copy(time_stamp))", "R13.1"),
    Edit("extract: descendants not copied", SH,
         "next_cnode = self._construct_cnode_with_all_children_cnodes(child, identifier + (index,), copy)",
         "next_cnode = self._construct_cnode_with_all_children_cnodes(child, identifier + (index,))", "R13.1"),
    Edit("extract: position of ancestors aliased", SH,
         "copy(next_node.value.position)", "next_node.value.position", "R13.1"),
    Edit("insert: children skipped", SH, "            self.insert_into_global_state(cnode.children)\n", "", "R13.4"),
    Edit("insert: time stamp not stored", SH,
         "self._lifting_state.set(identifier, cnode.value.velocity, cnode.value.time_stamp)",
         "self._lifting_state.set(identifier, cnode.value.velocity, cnode.value.velocity and Time(0.0, 0.0))", "R13.4"),
    Edit("output handler writes into the state", "jellyfysh/input_output_handler/output_handler/separation_output_handler.py",
         r"(    def write\(self, extracted_global_state: Sequence\[Node\]\) -> None:\n(?:        [^\n]*\n|\n)*?        \"\"\"\n(?:.*?\n)*?        \"\"\"\n)",
         r"\1        for root_cnode in extracted_global_state:\n            root_cnode.value.position = [0.0 for _ in root_cnode.value.position]\n",
         "R13.2", regex=True),
    Edit("tagger inserts into the global state", "jellyfysh/activator/tag_activator.py",
         "        trashable_events = []\n", "        trashable_events = []\n        self._state_handler.insert_into_global_state([])\n",
         "R13.3"),
    Edit("exchange aliases the velocity without clearing", EH + "abstracts/abstracts.py",
         "        active_unit.velocity = None\n        active_unit.time_stamp = None\n", "        pass\n", "R13.6"),
    Edit("sampling slices before storing", EH + "fixed_interval_sampling_event_handler.py",
         "        self._store_in_state(cnodes_with_active_units)\n        self._time_slice_all_units_in_state()\n",
         "        self._time_slice_all_units_in_state()\n        self._store_in_state(cnodes_with_active_units)\n", "R8.5"),
    Edit("independent rule: any member makes the object active", "jellyfysh/state_handler/lifting_state/tree_lifting_state.py",
         "if len(lifted_identifiers) == setting.number_of_nodes_per_root_node:", "if len(lifted_identifiers) >= 1:", "R13.7"),
    Edit("active part from all lifted identifiers", SH,
         "                for identifier in self._lifting_state.yield_independent_lifted_identifiers()]\n",
         "                for identifier in self._lifting_state._lifting_dictionary]\n", "R13.7"),
]
MUTANTS.append(Edit("simple active rule selected by nodes per root", "jellyfysh/state_handler/lifting_state/tree_lifting_state.py",
                    "if setting.number_of_node_levels == 1:", "if setting.number_of_nodes_per_root_node == 1:", "R13.7"))
TWINS = [
    Edit("copy -> list for positions", SH, "copy(next_node.value.position)", "list(next_node.value.position)"),
    Edit("insert: local alias for the unit", SH,
         "            identifier = cnode.value.identifier\n", "            identifier = cnode.value.identifier\n            _ = identifier\n"),
]
