"""
C08 -- a committed event was computed from the trajectory that is still current.

Decided: (R8.1) on the config graph of every shipped .ini -- no pending candidate of a kinematics-sensitive handler
survives a commit that changes a velocity, a cell-boundary snap of its cell system, or a mode switch it depends on;
(R8.5) every handler mutates only an in-state stored for the current event (so the post-commit alias of the global state
is never edited).  Handler sensitivity is derived from the handler code.  Not decided: float equality on concrete runs.
"""
from typing import Dict, List

from ..config_graph import ConfigGraph
from ..core import Loc, Report, Source
from ..handlers import HandlerFacts, concrete_handlers
from ..inifront import load_all
from ..protocol import HandlerProtocol
from ..pyfront import Program
from ..selftest import Edit

ID = "C08"


def analyse(src: Source) -> List[Report]:
    rep = Report(ID, src)
    rep.explain(
        "R8.1: abstract reachability of the tagger pool of every shipped .ini (same transition system as C09). For every "
        "reachable (state, committing tagger T) and every survivor S not trashed by T: not (T's handler writes a "
        "velocity and S's handler computes its candidate from positions/velocities of its in-state); not (T snaps a "
        "position across a cell boundary and S uses the same cell-occupancy state); not (T switches modes and S's "
        "candidate depends on the shape of the active state). Handler facts are derived from the handler classes "
        "(velocity/position writes in the send_out_state closure, position/velocity reads in the send_event_time closure "
        "outside asserts/log calls). R8.5: must-analysis over send_event_time;send_out_state of every concrete handler: "
        "every time-slice or unit-field write is preceded on all paths by storing the in-state of this event. R6.3/R6.4/R6.6 "
        "(shared with C06): a trashed candidate stays dead in both schedulers -- events are stored with the handler's "
        "current counter, trashing increments it, the root is discarded iff current > stored, overflow deletes before "
        "resetting, pickling keeps the stored counters.")
    rep.assume("any pending tagger may commit next; every kinematics-sensitive in-state contains the active unit (true "
               "for all in-state taggers of the package: their in-states are generated from the active state)")
    prog = Program(src)
    cfgs = load_all(prog)
    cache: Dict[str, HandlerFacts] = {}
    states = transitions = 0
    for cfg in cfgs:
        g = ConfigGraph(prog, cfg, cache)
        g.explore(rep, ("C08",))
        states += len(g.states)
        transitions += g.transitions
    handlers = concrete_handlers(prog)
    derived = {}
    for c in handlers:
        hp = HandlerProtocol(prog, c, rep, ["R8.5"])
        hp.run()
        f = hp.facts
        derived[c.name] = {"changes_trajectory": f.changes_trajectory, "snaps_position": f.snaps_position,
                           "kinematics_sensitive": f.kinematics_sensitive, "one_shot": f.one_shot,
                           "ends_run": f.ends_run, "self_clocked": f.self_clocked}
        # vacuity guards on the derivation itself: an interaction handler that exchanges velocities must be seen to
        rep.ob("R8.0-facts-derived", True, Loc(c.file, c.node.lineno, c.name), f"{c.name}: {derived[c.name]}", "",
               nontrivial=False)
    n_sensitive = sum(1 for d in derived.values() if d["kinematics_sensitive"])
    n_traj = sum(1 for d in derived.values() if d["changes_trajectory"])
    if n_sensitive < 10 or n_traj < 12:
        from ..core import AnalysisError
        raise AnalysisError(f"handler fact derivation lost its anchors: {n_sensitive} sensitive, {n_traj} "
                            f"trajectory-changing handlers (13 / 15 on the pinned tree)")
    # a trashed candidate must stay dead: lazy-deletion protocol of the schedulers (shared with C06), including across
    # counter overflow and pickling -- otherwise a stale candidate survives although the tagger lists trash it
    from ..cfront import CUnit
    from .c06 import HEAP_C, check_heap_scheduler, check_list_scheduler
    check_heap_scheduler(src, rep, CUnit(src, HEAP_C))
    check_list_scheduler(src, rep)
    # ... and the activator must know every candidate it handed out until a trash list returns it: the bookkeeping of the
    # running / not-running pools (shared with C09)
    from ..activator_rules import check as check_activator
    check_activator(prog, rep)
    rep.unit("config_files", len(cfgs))
    rep.unit("handler_classes", len(handlers))
    rep.extra["states"] = states
    rep.extra["transitions"] = transitions
    rep.extra["derived_handler_facts"] = derived
    rep.exhaustive = True
    rep.expect_min("R8.1-I3-stale-candidate", 300)
    rep.expect_min("R8.5-fresh-state", 40)
    # what the activator lists as trashable must die in the scheduler on every path of the mediators' trash loops
    from ..mediator_rules import check_trash_loops
    check_trash_loops(prog, rep, "R8.6-trash-loop-trashes-every-handler")
    rep.expect_min("R8.6-trash-loop-trashes-every-handler", 2)
    return [rep]


D = "jellyfysh/config_files/2018_JCP_149_064113/"
EH = "jellyfysh/event_handler/"
MUTANTS = [
    Edit("power_bounded: end_of_chain keeps coulomb candidates", D + "coulomb_atoms/power_bounded.ini",
         "[EndOfChain]\ncreate = end_of_chain, coulomb\ntrash = end_of_chain, coulomb",
         "[EndOfChain]\ncreate = end_of_chain\ntrash = end_of_chain", "R8.1-I3-stale-candidate"),
    Edit("atom_factors: coulomb keeps harmonic candidates", D + "dipoles/atom_factors.ini",
         r"(\[Coulomb\]\n(?:[^\[]*\n)*?create = [^\n]*?)harmonic,? ?([^\[]*?trash = [^\n]*?)harmonic,? ?", r"\1\2",
         "R8.1-I3-stale-candidate", regex=True),
    Edit("cell_veto: cell boundary event keeps the veto candidate", D + "coulomb_atoms/cell_veto.ini",
         r"(\[CellBoundary\]\n(?:[^\[]*\n)*?create = [^\n]*?)coulomb_cell_veto,? ?([^\[]*?trash = [^\n]*?)coulomb_cell_veto,? ?",
         r"\1\2", "R8.1-I3-stale-cell", regex=True),
    Edit("dipole_motion: mode switch keeps end_of_chain", D + "dipoles/dipole_motion.ini",
         "create = coulomb_leaf, harmonic_leaf, repulsive_leaf, leaf_to_root, end_of_chain\n"
         "trash = coulomb_root, repulsive_root, root_to_leaf, end_of_chain",
         "create = coulomb_leaf, harmonic_leaf, repulsive_leaf, leaf_to_root\n"
         "trash = coulomb_root, repulsive_root, root_to_leaf", "R8.1-I3c"),
    Edit("sampling handler slices before storing", EH + "fixed_interval_sampling_event_handler.py",
         "        self._store_in_state(cnodes_with_active_units)\n        self._time_slice_all_units_in_state()\n",
         "        self._time_slice_all_units_in_state()\n        self._store_in_state(cnodes_with_active_units)\n", "R8.5"),
    Edit("cell boundary handler forgets to store", EH + "cell_boundary_event_handler.py",
         "        self._store_in_state(in_states)\n", "", "R8.5"),
    Edit("end of chain slices the stale state", EH + "abstracts/end_of_chain_event_handler.py",
         "        self._store_in_state(cnodes_with_active_units)\n        self._time_slice_all_units_in_state()\n",
         "        self._time_slice_all_units_in_state()\n        self._store_in_state(cnodes_with_active_units)\n", "R8.5"),
]
TWINS = [
    Edit("sampling re-created by nobody else, lists permuted", D + "dipoles/atom_factors.ini",
         r"(\[Coulomb\]\ncreate = )(\w+), (\w+)", r"\1\3, \2", regex=True),
    Edit("rename helper variable in handler", EH + "cell_boundary_event_handler.py",
         "        self._store_in_state(in_states)\n        self._relevant_unit = cnode.value",
         "        self._relevant_unit = cnode.value\n        self._store_in_state(in_states)"),
    Edit("drop an assert", EH + "two_leaf_unit_event_handler.py", "        assert len(self._leaf_cnodes) == 2\n", ""),
]

# seventh round (C08_I): a fast path that recycles only the committing handler when the tagger trashes itself alone
MUTANTS.append(Edit("trash routine: self-trashing tagger stops only the committing handler", "jellyfysh/activator/tag_activator.py",
                    "        trashable_events = []\n        for tagger in self._trash_taggers[",
                    "        own_tagger = self._event_handler_tagger_dictionary[preceding_event_handler]\n"
                    "        if len(self._trash_taggers[own_tagger]) == 1 and self._trash_taggers[own_tagger][0] is own_tagger:\n"
                    "            self._running_event_handlers[own_tagger].remove(preceding_event_handler)\n"
                    "            self._not_running_event_handlers[own_tagger].append(preceding_event_handler)\n"
                    "            return [preceding_event_handler]\n"
                    "        trashable_events = []\n        for tagger in self._trash_taggers[", "R9.3"))
