"""
C14 -- time stamps keep full resolution and order however long the run is.

R14.1  six comparisons x nine orderings, exhaustive (finite ordering domain).
R14.2  magnitude-kind abstract interpretation of __add__, from_float, __sub__, update: a large quotient is never mixed
       with a fractional value before a Time is built or a difference returned; divmod only sees finite small sums.
R14.3  infinity branches return (inf, inf).
R14.4  representation hiding: who constructs Time / who reads quotient and remainder outside time.py.
Not decided: ulp-level constants of the bounds.
"""
import ast
from typing import Dict, List, Optional, Tuple

from ..core import AnalysisError, Loc, Report, Source, norm
from ..orderings import CELLS, NotInFragment, PyBoolEvaluator, lex_expected
from ..pyfront import Program, body_without_docstring, dotted, param_names
from ..selftest import Edit

ID = "C14"
TIME_FILE = "jellyfysh/base/time.py"
COMPARISONS = {"__eq__": "==", "__ne__": "!=", "__lt__": "<", "__gt__": ">", "__le__": "<=", "__ge__": ">="}
Q_NAMES = ("_quotient", "quotient")
R_NAMES = ("_remainder", "remainder")


# ---------------------------------------------------------------------------------------------------------------
# R14.1 comparison tables
# ---------------------------------------------------------------------------------------------------------------
def time_comparison_table(cls: ast.ClassDef, method: str, depth: int = 0) -> Dict[Tuple[str, str], bool]:
    """Truth table of Time.<method>(self, other) over the nine cells; raises NotInFragment."""
    methods = {m.name: m for m in cls.body if isinstance(m, ast.FunctionDef)}
    if depth > 6:
        raise NotInFragment("recursion among comparison methods")
    if method not in methods:
        if method == "__ne__":  # object.__ne__ inverts __eq__
            t = time_comparison_table(cls, "__eq__", depth + 1)
            return {c: not v for c, v in t.items()}
        if any(norm(d).split(".")[-1] == "total_ordering" for d in cls.decorator_list) and "__lt__" in methods and "__eq__" in methods \
                and method in ("__gt__", "__le__", "__ge__"):
            # functools.total_ordering derives the missing methods from __lt__ and __eq__ (CPython: _gt_from_lt, _le_from_lt, _ge_from_lt)
            lt, eq = time_comparison_table(cls, "__lt__", depth + 1), time_comparison_table(cls, "__eq__", depth + 1)
            if method == "__gt__":
                return {c: (not lt[c]) and not eq[c] for c in lt}
            if method == "__le__":
                return {c: lt[c] or eq[c] for c in lt}
            return {c: not lt[c] for c in lt}
        raise NotInFragment(f"{method} not defined")
    fn = methods[method]
    params = param_names(fn)
    if len(params) != 1:
        raise NotInFragment("signature")
    other = params[0]

    def atom(e: ast.AST):
        if isinstance(e, ast.Attribute) and isinstance(e.value, ast.Name):
            who = 1 if e.value.id == "self" else 2 if e.value.id == other else None
            if who is None:
                return None
            if e.attr in Q_NAMES:
                return "q", who
            if e.attr in R_NAMES:
                return "r", who
        return None

    def call(e: ast.AST, cell):
        # self.__lt__(other) / other.__lt__(self) / self < other
        if isinstance(e, ast.Call) and isinstance(e.func, ast.Attribute) and isinstance(e.func.value, ast.Name) \
                and (e.func.attr in COMPARISONS or e.func.attr in methods) and len(e.args) == 1 and isinstance(e.args[0], ast.Name):
            # a comparison method or any other boolean one-argument helper of the class: its own table, recursively
            recv, arg = e.func.value.id, e.args[0].id
            table = time_comparison_table(cls, e.func.attr, depth + 1)
            if recv == "self" and arg == other:
                return table[cell]
            if recv == other and arg == "self":
                flip = {"<": ">", "=": "=", ">": "<"}
                return table[(flip[cell[0]], flip[cell[1]])]
        if isinstance(e, ast.Compare) and len(e.ops) == 1 and isinstance(e.left, ast.Name) \
                and isinstance(e.comparators[0], ast.Name):
            from ..orderings import OPSTR
            opname = {v: k for k, v in COMPARISONS.items()}[OPSTR[type(e.ops[0])]]
            fake = ast.Call(func=ast.Attribute(value=e.left, attr=opname, ctx=ast.Load()), args=[e.comparators[0]],
                            keywords=[])
            return call(fake, cell)
        raise NotInFragment(f"call {norm(e)}")

    ev = PyBoolEvaluator(atom, call)
    return {cell: ev.body(body_without_docstring(fn), cell) for cell in CELLS}


# ---------------------------------------------------------------------------------------------------------------
# R14.2 kinds
# ---------------------------------------------------------------------------------------------------------------
INTQ, FRAC, DISP, FLOAT, INF, SMALL, DQ, ELAPSED, LOSSY, ONE, TOP = \
    "INTQ", "FRAC", "DISP", "FLOAT", "INF", "SMALL", "DQ", "ELAPSED", "LOSSY", "ONE", "TOP"
INTEGRAL = (INTQ,)
FRACTIONAL = (FRAC, DISP, SMALL, ELAPSED)


def kind_add(a: str, b: str, sub: bool) -> str:
    if LOSSY in (a, b):
        return LOSSY
    if TOP in (a, b):
        return TOP
    if a in INTEGRAL and b in INTEGRAL:
        return DQ if sub else INTQ
    if (a in INTEGRAL and b in FRACTIONAL + (FLOAT, DQ)) or (b in INTEGRAL and a in FRACTIONAL + (FLOAT, DQ)):
        return LOSSY if (a in FRACTIONAL + (FLOAT,) or b in FRACTIONAL + (FLOAT,)) else (DQ if sub else INTQ)
    if FLOAT in (a, b) or INF in (a, b):
        return FLOAT
    if DQ in (a, b) or ELAPSED in (a, b):
        return ELAPSED
    if sub:
        return ELAPSED
    if a in (FRAC, DISP, SMALL) and b in (FRAC, DISP, SMALL):
        return SMALL
    return TOP


class KindInterp:
    def __init__(self, rep: Report, file: str, clsname: str, fn: ast.FunctionDef) -> None:
        self.rep, self.file, self.clsname, self.fn = rep, file, clsname, fn
        self.qual = f"{clsname}.{fn.name}"
        self.returns: List[Tuple[object, ast.AST]] = []

    def loc(self, n: ast.AST) -> Loc:
        return Loc(self.file, getattr(n, "lineno", self.fn.lineno), self.qual)

    def ev(self, e: ast.AST, env: Dict[str, object]):
        if isinstance(e, ast.Attribute) and isinstance(e.value, ast.Name) and env.get(e.value.id) == "TIMEOBJ":
            if e.attr in Q_NAMES:
                return INTQ
            if e.attr in R_NAMES:
                return FRAC
            return TOP
        if isinstance(e, ast.Name):
            return env.get(e.id, TOP)
        if isinstance(e, ast.Constant) and isinstance(e.value, (int, float)) and not isinstance(e.value, bool):
            return ONE if e.value == 1 else (FRAC if 0 <= e.value < 1 else TOP)
        if isinstance(e, ast.BinOp) and isinstance(e.op, (ast.Add, ast.Sub)):
            return kind_add(self.ev(e.left, env), self.ev(e.right, env), isinstance(e.op, ast.Sub))
        if isinstance(e, ast.Call):
            name = dotted(e.func) or ""
            if name == "divmod" and len(e.args) == 2:
                a, m = self.ev(e.args[0], env), self.ev(e.args[1], env)
                self.rep.ob("R14.2-divmod", m == ONE and a in (SMALL, DISP, FRAC), self.loc(e), e,
                            f"divmod must split a finite sum of remainder and displacement by 1.0; argument kind {a}"
                            f"{' (possibly infinite: divmod(inf, 1.0) is (nan, nan))' if a == FLOAT else ''}"
                            f"{' (a large quotient mixed with a fraction loses resolution)' if a == LOSSY else ''}, "
                            f"modulus kind {m}")
                return (INTQ, FRAC)
            if name in ("Time", f"{self.clsname}") and e.args:
                args = self._args(e, env)
                ok = args in ([INTQ, FRAC], [INF, INF])
                if not ok and len(e.args) == 1 and isinstance(e.args[0], ast.Starred):
                    # Time(*(A if c else B)): every alternative is judged on its own
                    v = self.ev(e.args[0].value, env)
                    if isinstance(v, tuple) and len(v) == 2 and v[0] == "JOIN" and all(isinstance(x, tuple) for x in v[1]):
                        ok = all(list(x) in ([INTQ, FRAC], [INF, INF]) for x in v[1])
                if not ok and TOP in repr(args):
                    ok = None       # a kind the interpreter could not determine (e.g. the result of a helper function): undecided
                self.rep.ob("R14.2-constructor", ok, self.loc(e), e,
                            f"Time must be built from (integer quotient, remainder in [0,1)) or (inf, inf); argument "
                            f"kinds {args}")
                return "TIMEOBJ"
            if name.endswith("from_float") and len(e.args) == 1:
                a = self.ev(e.args[0], env)
                self.rep.ob("R14.2-from-float", a != LOSSY, self.loc(e), e,
                            f"a value of kind {a} (quotient mixed with a fraction) is converted back into a Time")
                return "TIMEOBJ"
            if name in ("float",) and len(e.args) == 1:
                return self.ev(e.args[0], env)
            return TOP
        if isinstance(e, ast.Tuple):
            return tuple(self.ev(x, env) for x in e.elts)
        if isinstance(e, ast.IfExp):
            t, f = self.split(e.test, env)
            vals = []
            if t is not None:
                vals.append(self.ev(e.body, t))
            if f is not None:
                vals.append(self.ev(e.orelse, f))
            self._ifexp_vals = vals
            return vals[0] if len(vals) == 1 or all(v == vals[0] for v in vals) else ("JOIN", tuple(vals))
        return TOP

    def _args(self, call: ast.Call, env) -> List[object]:
        out: List[object] = []
        for a in call.args:
            if isinstance(a, ast.Starred):
                v = self.ev(a.value, env)
                out.extend(v if isinstance(v, tuple) else [TOP])
            else:
                out.append(self.ev(a, env))
        return out

    def split(self, test: ast.AST, env):
        """Refine on isinf(x) / not isinf(x)."""
        neg = False
        t = test
        while isinstance(t, ast.UnaryOp) and isinstance(t.op, ast.Not):
            neg, t = not neg, t.operand
        if isinstance(t, ast.Call) and (dotted(t.func) or "").split(".")[-1] == "isinf" and len(t.args) == 1 \
                and isinstance(t.args[0], ast.Name) and env.get(t.args[0].id) == FLOAT:
            inf_env, fin_env = dict(env), dict(env)
            inf_env[t.args[0].id] = INF
            fin_env[t.args[0].id] = DISP
            return (fin_env, inf_env) if neg else (inf_env, fin_env)
        return dict(env), dict(env)

    def block(self, stmts: List[ast.stmt], env) -> None:
        for i, s in enumerate(stmts):
            if isinstance(s, ast.Expr) and isinstance(s.value, ast.Constant):
                continue
            if isinstance(s, ast.Assign) and len(s.targets) == 1:
                t = s.targets[0]
                v = self.ev(s.value, env)
                if isinstance(t, ast.Name):
                    env[t.id] = v
                elif isinstance(t, ast.Tuple) and all(isinstance(x, ast.Name) for x in t.elts):
                    vals = v if isinstance(v, tuple) and len(v) == len(t.elts) else [TOP] * len(t.elts)
                    for x, vv in zip(t.elts, vals):
                        env[x.id] = vv
                elif isinstance(t, ast.Attribute) and isinstance(t.value, ast.Name) and t.value.id == "self":
                    if t.attr == "_quotient":
                        self.rep.ob("R14.2-field", v in (INTQ, INF), self.loc(s), s,
                                    f"the quotient field receives a value of kind {v}")
                    elif t.attr == "_remainder":
                        self.rep.ob("R14.2-field", v in (FRAC, INF), self.loc(s), s,
                                    f"the remainder field receives a value of kind {v}")
                continue
            if isinstance(s, ast.Return):
                if s.value is not None and isinstance(s.value, ast.IfExp):
                    t, f = self.split(s.value.test, env)
                    if t is not None:
                        self.returns.append((self.ev(s.value.body, t), s))
                    if f is not None:
                        self.returns.append((self.ev(s.value.orelse, f), s))
                else:
                    self.returns.append((self.ev(s.value, env) if s.value is not None else None, s))
                return
            if isinstance(s, ast.If):
                t, f = self.split(s.test, env)
                self.block(list(s.body) + stmts[i + 1:], t)
                self.block(list(s.orelse) + stmts[i + 1:], f)
                return
            if isinstance(s, (ast.Pass, ast.Assert)):
                continue
            self.rep.ob("R14.2-fragment", None, self.loc(s), s, f"statement kind {type(s).__name__} not interpreted")
            return
        self.returns.append((None, self.fn))


def analyse(src: Source) -> List[Report]:
    rep = Report(ID, src)
    rep.explain(
        "R14.1: the six comparison methods of Time are evaluated on all 9 cells of (quotient order, remainder order) "
        "and must equal the lexicographic order (exhaustive over the finite ordering domain). R14.2/R14.3: "
        "magnitude-kind abstract interpretation of Time.__add__/from_float/__sub__/update -- a quotient (integer, "
        "arbitrarily large) is combined only with integers; remainder + displacement is split by divmod(., 1.0) only "
        "when finite; every Time(...) gets (integer, fraction) or (inf, inf); __sub__ forms the quotient difference "
        "before touching remainders. R14.4: Time is constructed outside time.py only from normalised literal pairs "
        "or heap-entry fields; quotient/remainder are read outside only as an ordered pair passed on. Not decided: "
        "ulp-level constants.")
    rep.assume("operands of Time methods are normalised Times (integer quotient, remainder in [0,1)) or (inf, inf); "
               "displacements are non-negative floats or +inf")
    tree = src.parse(TIME_FILE)
    classes = [n for n in tree.body if isinstance(n, ast.ClassDef) and n.name == "Time"]
    if len(classes) != 1:
        raise AnalysisError("class Time not found in jellyfysh/base/time.py")
    cls = classes[0]
    # canonical view of the class: static / private helpers inlined into the methods that use them, class-level numeric constants
    # (`Time._UNIT`) replaced by their values -- the interpreters below read what a method does, not how it is split up
    import copy
    from ..normalize import canon
    from ..pyfront import const_value
    prog = Program(src)
    ci = next((c for c in prog.classes_in(TIME_FILE) if c.name == "Time"), None)
    if ci is not None:
        class _Consts(ast.NodeTransformer):
            def visit_Attribute(self, node: ast.Attribute):
                self.generic_visit(node)
                if isinstance(node.value, ast.Name) and node.value.id in ("self", "cls", "Time") and isinstance(node.ctx, ast.Load):
                    v = const_value(prog, ci, node)
                    if isinstance(v, (int, float)) and not isinstance(v, bool):
                        return ast.copy_location(ast.Constant(value=v), node)
                return node
        init_params = param_names(ci.methods["__init__"]) if "__init__" in ci.methods else []

        class _Ctor(ast.NodeTransformer):
            """`cls(..)` in a classmethod is `Time(..)`; keyword arguments of the constructor are put in parameter order"""
            def visit_Call(self, node: ast.Call):
                self.generic_visit(node)
                if isinstance(node.func, ast.Name) and node.func.id in ("cls", "Time"):
                    node.func = ast.copy_location(ast.Name(id="Time", ctx=ast.Load()), node.func)
                    if node.keywords and all(k.arg in init_params for k in node.keywords) and not any(isinstance(a, ast.Starred) for a in node.args):
                        vals = dict(zip(init_params, node.args))
                        vals.update({k.arg: k.value for k in node.keywords})
                        if list(vals) == init_params[:len(vals)] or set(vals) == set(init_params):
                            node.args = [vals[p_] for p_ in init_params if p_ in vals]
                            node.keywords = []
                return node
        cls = copy.copy(cls)
        cls.body = [(_Ctor().visit(_Consts().visit(copy.deepcopy(canon(prog, ci, m)))) if isinstance(m, ast.FunctionDef) else m) for m in cls.body]
    methods = {m.name: m for m in cls.body if isinstance(m, ast.FunctionDef)}
    # ---- R14.1 ------------------------------------------------------------------------------------------------
    # comparisons are decided from the orderings of the two quotients and of the two remainders alone: any arithmetic on a
    # quotient or remainder inside a comparison method (e.g. comparing the float sums quotient + remainder) rounds to
    # ulp(quotient) and cannot be the exact order
    for mname in COMPARISONS:
        m = methods.get(mname)
        if m is None:
            continue
        for n in ast.walk(m):
            if isinstance(n, ast.BinOp) and any(isinstance(x, ast.Attribute) and x.attr in Q_NAMES + R_NAMES for x in ast.walk(n)):
                rep.ob("R14.1-exact-comparison", False, Loc(TIME_FILE, n.lineno, f"Time.{mname}"), n,
                       "a comparison method of Time computes with quotient / remainder instead of comparing them pairwise: the float "
                       "result has the resolution of the quotient, two times closer than ulp(quotient) compare wrongly")
        rep.ob("R14.1-exact-comparison", True, Loc(TIME_FILE, m.lineno, f"Time.{mname}"), f"Time.{mname}: no arithmetic on quotient / remainder", "")
    # the C heap compares entry times the same way: its time fields are only compared and copied, never added or subtracted
    from ..cfront import CUnit, strip as cstrip, text as ctext
    from .c06 import HEAP_C
    unit = CUnit(src, HEAP_C)
    tfields = [f.split()[-1] for f in unit.fields("HeapEntry") if f.startswith("double")]
    ip = unit.params("insert")
    tnames = set(tfields) | set(ip[1:3])
    n_c = 0
    for fname, fnode in unit.functions.items():
        for n in fnode.walk():
            if n.kind in ("BinaryOperator", "CompoundAssignOperator") and n.props.get("opcode") in ("+", "-", "*", "/", "+=", "-=", "*=", "/="):
                def is_time(x) -> bool:
                    x = cstrip(x)
                    return (x.kind == "MemberExpr" and x.props.get("name") in tfields) or \
                        (x.kind == "DeclRefExpr" and fname == "insert" and x.props.get("ref") in ip[1:3])
                if any(is_time(c) for c in n.children) or any(is_time(x) for c in n.children for x in cstrip(c).walk()
                                                              if cstrip(c).kind in ("BinaryOperator", "ParenExpr")):
                    n_c += 1
                    rep.ob("R14.1-exact-comparison", False, Loc(HEAP_C, n.line, fname), ctext(n),
                           "heap.c computes with the quotient / remainder of a candidate time: entry times must be compared field by field "
                           "(quotient, then remainder); a float sum or difference has only the resolution of the quotient")
    rep.ob("R14.1-exact-comparison", True, Loc(HEAP_C, 0, ""), f"heap.c: time fields {sorted(tnames)} only compared and copied", "")
    for mname, op in COMPARISONS.items():
        m = methods.get(mname, methods.get("__eq__"))
        loc = Loc(TIME_FILE, m.lineno if m else cls.lineno, f"Time.{mname}")
        try:
            table = time_comparison_table(cls, mname)
        except NotInFragment as e:
            for cell in CELLS:
                rep.ob("R14.1-order", None, loc, f"{mname} @ q{cell[0]} r{cell[1]}", f"not in fragment: {e}")
            continue
        for cell in CELLS:
            want = lex_expected(cell, op)
            rep.ob("R14.1-order", table[cell] == want, loc, f"{mname} @ quotient{cell[0]} remainder{cell[1]}",
                   f"Time.{mname} yields {table[cell]} where the exact order of quotient+remainder gives {want} "
                   f"(self.quotient {cell[0]} other.quotient, self.remainder {cell[1]} other.remainder)")
    rep.expect_min("R14.1-order", 54)
    rep.exhaustive = True
    # ---- R14.2 / R14.3 ----------------------------------------------------------------------------------------
    for mname, param_kinds in (("__add__", [FLOAT]), ("from_float", [FLOAT]), ("__sub__", ["TIMEOBJ"]),
                               ("update", ["TIMEOBJ"])):
        m = methods.get(mname)
        if m is None:
            rep.ob("R14.2-method", None, Loc(TIME_FILE, cls.lineno, f"Time.{mname}"), mname, "method missing")
            continue
        env: Dict[str, object] = {"self": "TIMEOBJ"}
        for p, k in zip(param_names(m), param_kinds):
            env[p] = k
        ki = KindInterp(rep, TIME_FILE, "Time", m)
        ki.block(body_without_docstring(m), env)
        for val, stmt in ki.returns:
            loc = Loc(TIME_FILE, getattr(stmt, "lineno", m.lineno), f"Time.{mname}")
            if mname in ("__add__", "from_float"):
                rep.ob("R14.2-returns-time", val == "TIMEOBJ", loc, stmt,
                       f"every path must return a Time built by the checked constructor; got {val}")
            elif mname == "__sub__":
                rep.ob("R14.2-sub", val in (ELAPSED, DQ), loc, stmt,
                       f"the difference must be formed as (quotient - quotient) combined with remainders; result kind "
                       f"{val} (LOSSY = a large quotient was added to a fraction before subtracting)")
    rep.expect_min("R14.2-constructor", 2)
    rep.expect_min("R14.2-divmod", 2)
    rep.expect_min("R14.2-sub", 1)
    rep.expect_min("R14.2-field", 2)
    # an absolute time is never accumulated in a float and converted afterwards: Time.from_float(x) with x an attribute that the
    # same class advances by `+=` rounds at the size of the time reached at every step (the purpose of Time is lost)
    from ..pyfront import self_attr as _sa
    n_ff = 0
    for rel in src.walk("jellyfysh", "*.py"):
        if "/unittests" in rel or rel.startswith("unittests"):
            continue
        try:
            mod_tree = src.parse(rel)
        except SyntaxError:
            continue
        for c_ in [x for x in ast.walk(mod_tree) if isinstance(x, ast.ClassDef)]:
            calls_ = [x for x in ast.walk(c_) if isinstance(x, ast.Call) and norm(x.func).endswith("Time.from_float") and x.args]
            if not calls_:
                continue
            accumulated = {_sa(a.target) for a in ast.walk(c_) if isinstance(a, ast.AugAssign) and isinstance(a.op, ast.Add) and _sa(a.target)}
            for call_ in calls_:
                n_ff += 1
                hit = sorted({_sa(x) for x in ast.walk(call_.args[0]) if isinstance(x, ast.Attribute) and _sa(x) in accumulated})
                rep.ob("R14.5-no-float-accumulated-time", not hit, Loc(rel, call_.lineno, c_.name), call_,
                       f"`{norm(call_)}` converts the attribute(s) {hit}, which the class advances by `+=` as plain floats: the absolute "
                       f"time is rounded at its own size at every step, so the resolution Time exists to keep is lost in long runs")
    rep.unit("from_float_sites_in_classes", n_ff)
    # writers of the two fields
    for n in ast.walk(cls):
        if isinstance(n, ast.FunctionDef):
            for a in ast.walk(n):
                if isinstance(a, (ast.Assign, ast.AugAssign)):
                    targets = a.targets if isinstance(a, ast.Assign) else [a.target]
                    for t in targets:
                        if isinstance(t, ast.Attribute) and t.attr in ("_quotient", "_remainder"):
                            rep.ob("R14.4-field-writer", n.name in ("__init__", "update"),
                                   Loc(TIME_FILE, a.lineno, f"Time.{n.name}"), a,
                                   "only the constructor and update may write the representation")
    # every writer of the representation writes all of it: a field that the constructor derives from quotient and remainder (a cached
    # key, a float sum) and that `update` leaves behind makes the comparisons answer for the time the object held before
    def _self_stores(fn_: ast.AST) -> set:
        return {t.attr for a in ast.walk(fn_) if isinstance(a, (ast.Assign, ast.AugAssign, ast.AnnAssign))
                for t in (a.targets if isinstance(a, ast.Assign) else [a.target])
                for t in ([t] if not isinstance(t, ast.Tuple) else t.elts)
                if isinstance(t, ast.Attribute) and isinstance(t.value, ast.Name) and t.value.id == "self"}
    inits = [n for n in cls.body if isinstance(n, ast.FunctionDef) and n.name == "__init__"]
    if inits:
        init_fields = _self_stores(inits[0])
        for n in cls.body:
            if isinstance(n, ast.FunctionDef) and n.name != "__init__":
                written = _self_stores(n)
                if written & init_fields:
                    missing = sorted(init_fields - written)
                    rep.ob("R14.4-writer-complete", not missing, Loc(TIME_FILE, n.lineno, f"Time.{n.name}"), n.name,
                           f"`{n.name}` changes the time of the object but not {missing}, which the constructor sets from the same time")
    # ---- R14.4 ------------------------------------------------------------------------------------------------
    rep.unit("python_modules", len(prog.modules))
    for mi in prog.modules.values():
        if mi.file == TIME_FILE:
            continue
        time_names = {local for local, target in mi.imports.items() if target == "jellyfysh.base.time.Time"}
        for fnode in ast.walk(mi.tree):
            if isinstance(fnode, ast.Call) and isinstance(fnode.func, ast.Name) and fnode.func.id in time_names:
                loc = Loc(mi.file, fnode.lineno, _enclosing(mi.tree, fnode))
                rep.ob("R14.4-construct", _normalised_pair(fnode), loc, fnode,
                       "Time constructed outside time.py from something that is not a normalised literal pair, "
                       "(+-inf, +-inf) or the (time_quotient, time_remainder) fields of one heap entry")
            if isinstance(fnode, ast.Attribute) and fnode.attr in ("_quotient", "_remainder"):
                rep.ob("R14.4-private", False, Loc(mi.file, fnode.lineno, _enclosing(mi.tree, fnode)), fnode,
                       "private representation of Time accessed outside time.py")
        # the two halves of a time held by a C heap entry are never recombined by arithmetic on the Python side either (a dumped
        # entry keeps both fields; `time_quotient + time_remainder` has the resolution of the quotient)
        parent_of: Dict[int, ast.AST] = {}
        for p_ in ast.walk(mi.tree):
            for c_ in ast.iter_child_nodes(p_):
                parent_of[id(c_)] = p_

        def only_reported(n_: ast.AST) -> bool:
            """the value only ends up in a log / error message (str(), format(), a logger call, an exception text)"""
            x = parent_of.get(id(n_))
            while x is not None and not isinstance(x, ast.stmt):
                if isinstance(x, ast.Call) and ((isinstance(x.func, ast.Name) and x.func.id in ("str", "repr", "print", "format")) or
                                                (isinstance(x.func, ast.Attribute) and x.func.attr in ("format", "debug", "info", "warning", "error",
                                                                                                       "critical", "log"))):
                    return True
                if isinstance(x, (ast.JoinedStr, ast.FormattedValue)):
                    return True
                x = parent_of.get(id(x))
            return False
        for b_ in [n for n in ast.walk(mi.tree) if isinstance(n, (ast.BinOp, ast.AugAssign))]:
            if only_reported(b_):
                continue
            parts = [x for x in ast.walk(b_) if isinstance(x, ast.Attribute) and x.attr in ("time_quotient", "time_remainder", "quotient", "remainder")]
            inner = any(isinstance(y, ast.BinOp) and y is not b_ and any(x in list(ast.walk(y)) for x in parts) for y in ast.walk(b_))
            if parts and not inner:
                rep.ob("R14.4-pair-not-recombined", False, Loc(mi.file, b_.lineno, _enclosing(mi.tree, b_)), b_,
                       "arithmetic on the quotient / remainder of a stored time outside time.py: the result is a single float with the "
                       "resolution of the quotient; the pair must be passed on as it is")
        # reads of .quotient / .remainder : only as the ordered pair (x.quotient, x.remainder) in one call
        for call in [n for n in ast.walk(mi.tree) if isinstance(n, ast.Call)]:
            for i, a in enumerate(call.args):
                if isinstance(a, ast.Attribute) and a.attr == "quotient":
                    nxt = call.args[i + 1] if i + 1 < len(call.args) else None
                    ok = isinstance(nxt, ast.Attribute) and nxt.attr == "remainder" and norm(nxt.value) == norm(a.value)
                    rep.ob("R14.4-read-pair", ok, Loc(mi.file, call.lineno, _enclosing(mi.tree, call)), call,
                           "quotient must be passed on together with the remainder of the same time, in this order")
        reads = [n for n in ast.walk(mi.tree) if isinstance(n, ast.Attribute) and n.attr in ("quotient", "remainder")
                 and isinstance(n.ctx, ast.Load)]
        paired = set()
        for call in [n for n in ast.walk(mi.tree) if isinstance(n, ast.Call)]:
            for i, a in enumerate(call.args[:-1]):
                b = call.args[i + 1]
                if isinstance(a, ast.Attribute) and a.attr == "quotient" and isinstance(b, ast.Attribute) \
                        and b.attr == "remainder" and norm(a.value) == norm(b.value):
                    paired.add(id(a))
                    paired.add(id(b))
        for r in reads:
            if id(r) not in paired:
                rep.ob("R14.4-read", False, Loc(mi.file, r.lineno, _enclosing(mi.tree, r)), r,
                       "quotient/remainder of a Time read outside time.py other than as an ordered pair handed to "
                       "the C heap: arithmetic on the parts bypasses Time's normalisation")
    rep.expect_min("R14.4-construct", 8)
    rep.expect_min("R14.4-read-pair", 2)
    return [rep]


def _num(e: ast.AST) -> Optional[float]:
    if isinstance(e, ast.Constant) and isinstance(e.value, (int, float)) and not isinstance(e.value, bool):
        return float(e.value)
    if isinstance(e, ast.UnaryOp) and isinstance(e.op, ast.USub):
        v = _num(e.operand)
        return -v if v is not None else None
    if isinstance(e, ast.Call) and isinstance(e.func, ast.Name) and e.func.id == "float" and len(e.args) == 1 \
            and isinstance(e.args[0], ast.Constant) and isinstance(e.args[0].value, str):
        try:
            return float(e.args[0].value)
        except ValueError:
            return None
    return None


def _normalised_pair(call: ast.Call) -> bool:
    if len(call.args) != 2 or call.keywords:
        return False
    a, b = call.args
    va, vb = _num(a), _num(b)
    if va is not None and vb is not None:
        if va in (float("inf"), float("-inf")):
            return va == vb
        return va == int(va) and 0.0 <= vb < 1.0
    if isinstance(a, ast.Attribute) and isinstance(b, ast.Attribute) and a.attr == "time_quotient" \
            and b.attr == "time_remainder" and norm(a.value) == norm(b.value):
        return True
    return False


def _enclosing(tree: ast.Module, node: ast.AST) -> str:
    best = ""
    for cls in [n for n in tree.body if isinstance(n, ast.ClassDef)]:
        for fn in [m for m in cls.body if isinstance(m, ast.FunctionDef)]:
            if fn.lineno <= getattr(node, "lineno", 0) <= (fn.end_lineno or fn.lineno):
                best = f"{cls.name}.{fn.name}"
    for fn in [n for n in tree.body if isinstance(n, ast.FunctionDef)]:
        if fn.lineno <= getattr(node, "lineno", 0) <= (fn.end_lineno or fn.lineno):
            best = fn.name
    return best


T = TIME_FILE
MUTANTS = [
    Edit("__add__ through float sum", T,
         "            add_quotient, new_remainder = divmod(self._remainder + other, 1.0)\n"
         "            return Time(self._quotient + add_quotient, new_remainder)",
         "            return Time.from_float(self._quotient + self._remainder + other)", "R14.2"),
    Edit("__sub__ sums first", T,
         "return self._quotient - other.quotient + self._remainder - other._remainder",
         "return (self._quotient + self._remainder) - (other.quotient + other._remainder)", "R14.2-sub"),
    Edit("__lt__ <= on remainders", T, "self._remainder < other.remainder", "self._remainder <= other.remainder",
         "R14.1"),
    Edit("__lt__ forgets equal-quotient guard", T,
         r"or \(self\._quotient == other\.quotient\s+and self\._remainder < other\.remainder\)",
         "or self._remainder < other.remainder", "R14.1", regex=True),
    Edit("__ge__ = not lt and ne", T, "        return not lt_result\n", "        return not lt_result and self.__ne__(other)\n",
         "R14.1"),
    Edit("__eq__ or", T, "self._quotient == other.quotient and self._remainder == other.remainder",
         "self._quotient == other.quotient or self._remainder == other.remainder", "R14.1"),
    Edit("__gt__ drops ne", T, "return not lt_result and self.__ne__(other)", "return not lt_result", "R14.1"),
    Edit("__add__ drops isinf branch", T,
         "        if not isinf(other):\n            add_quotient, new_remainder = divmod(self._remainder + other, 1.0)\n"
         "            return Time(self._quotient + add_quotient, new_remainder)\n        else:\n"
         "            return Time(other, other)",
         "        add_quotient, new_remainder = divmod(self._remainder + other, 1.0)\n"
         "        return Time(self._quotient + add_quotient, new_remainder)", "R14.2-divmod"),
    Edit("from_float drops isinf branch", T,
         "return Time(*divmod(time, 1.0)) if not isinf(time) else Time(time, time)", "return Time(*divmod(time, 1.0))",
         "R14.2-divmod"),
    Edit("__add__ swaps constructor args", T, "return Time(self._quotient + add_quotient, new_remainder)",
         "return Time(new_remainder, self._quotient + add_quotient)", "R14.2-constructor"),
    Edit("__add__ adds displacement to quotient", T,
         "add_quotient, new_remainder = divmod(self._remainder + other, 1.0)",
         "add_quotient, new_remainder = divmod(self._quotient + other, 1.0)", "R14.2"),
    Edit("update swaps fields", T, "self._quotient = other.quotient\n        self._remainder = other.remainder",
         "self._quotient = other.remainder\n        self._remainder = other.quotient", "R14.2-field"),
    Edit("unnormalised literal outside", "jellyfysh/event_handler/fixed_interval_dumping_event_handler.py",
         "self._event_time = Time(0.0, 0.0)", "self._event_time = Time(0.0, 1.0)", "R14.4-construct"),
    Edit("scheduler reads remainder only", "jellyfysh/scheduler/heap_scheduler/heap_scheduler.py",
         "new_size = _lib_insert(self._heap, time.quotient, time.remainder,",
         "new_size = _lib_insert(self._heap, time.quotient, time.quotient + time.remainder,", "R14.4", nth=0),
]
TWINS = [
    Edit("__eq__ reordered conjunction", T, "self._quotient == other.quotient and self._remainder == other.remainder",
         "self._remainder == other.remainder and self._quotient == other.quotient"),
    Edit("__sub__ regrouped", T, "return self._quotient - other.quotient + self._remainder - other._remainder",
         "return (self._quotient - other.quotient) + (self._remainder - other._remainder)"),
    Edit("__ge__ via operators", T, "        lt_result = self.__lt__(other)\n        return not lt_result\n",
         "        return not self < other\n"),
    Edit("__add__ early return for inf", T,
         "        if not isinf(other):\n            add_quotient, new_remainder = divmod(self._remainder + other, 1.0)\n"
         "            return Time(self._quotient + add_quotient, new_remainder)\n        else:\n"
         "            return Time(other, other)",
         "        if isinf(other):\n            return Time(other, other)\n"
         "        carry, new_remainder = divmod(other + self._remainder, 1.0)\n"
         "        return Time(carry + self._quotient, new_remainder)"),
]
MUTANTS += [
    Edit("less-than on the float sums", TIME_FILE,
         "        return self._quotient < other.quotient or (self._quotient == other.quotient\n                                                   and self._remainder < other.remainder)",
         "        return self._quotient + self._remainder < other.quotient + other.remainder", "R14.1"),
    Edit("heap sift-up compares the float sums", "jellyfysh/scheduler/heap_scheduler/heap.c",
         "    while (time_quotient < heap->heap_entries[parent_position].time_quotient ||\n              (time_quotient == heap->heap_entries[parent_position].time_quotient\n               && time_remainder < heap->heap_entries[parent_position].time_remainder)) {",
         "    while (time_quotient + time_remainder < heap->heap_entries[parent_position].time_quotient + heap->heap_entries[parent_position].time_remainder) {", "R14.1"),
]
MUTANTS += [
    Edit("pending time recombined into one float", "jellyfysh/scheduler/heap_scheduler/heap_scheduler.py",
         "Time(top.time_quotient, top.time_remainder)", "Time.from_float(top.time_quotient + top.time_remainder)", "R14.4"),
]
