"""
Who-may-write inventory: every store to a unit field (position, velocity, time_stamp, identifier, charge) in the package,
with the provenance of the receiver (derived from a function parameter, from self, or a fresh local object).
"""
import ast
from typing import Dict, Iterator, List, Optional, Set, Tuple

from .handlers import stores
from .pyfront import ClassInfo, ModuleInfo, Program, param_names


class FieldWrite:
    def __init__(self, mi: ModuleInfo, ci: Optional[ClassInfo], fn: ast.FunctionDef, stmt: ast.stmt, field: str,
                 recv: ast.AST, elementwise: bool, value: Optional[ast.AST], provenance: str) -> None:
        self.mi, self.ci, self.fn, self.stmt, self.field = mi, ci, fn, stmt, field
        self.recv, self.elementwise, self.value, self.provenance = recv, elementwise, value, provenance

    @property
    def qual(self) -> str:
        return f"{self.ci.name}.{self.fn.name}" if self.ci else self.fn.name


def root_name(e: ast.AST) -> Optional[str]:
    while True:
        if isinstance(e, ast.Name):
            return e.id
        if isinstance(e, (ast.Attribute, ast.Subscript, ast.Starred)):
            e = e.value
        elif isinstance(e, ast.Call) and isinstance(e.func, (ast.Name, ast.Attribute)) and \
                (e.func.id if isinstance(e.func, ast.Name) else e.func.attr) == "reduce" and len(e.args) == 3:
            e = e.args[2]        # a fold that descends from its initial value: the object reached belongs to what it started from
        elif isinstance(e, ast.Call):
            e = e.func
        else:
            return None


def taint_from_params(fn: ast.FunctionDef) -> Dict[str, str]:
    """
    name -> 'param' | 'self' | 'local' : where the object a local name refers to comes from (flow-insensitive, through
    assignments, for-loops, comprehensions and calls whose arguments are tainted).
    """
    prov: Dict[str, str] = {"self": "self", "cls": "self"}
    for a in fn.args.posonlyargs + fn.args.args + fn.args.kwonlyargs:
        if a.arg in ("self", "cls"):
            continue
        # only parameters that can carry units / nodes seed the taint: annotated with Node, Unit or Any
        # (scalars, strings and unannotated construction-time numbers do not)
        ann = ast.unparse(a.annotation) if a.annotation is not None else ""
        prov[a.arg] = "param" if any(k in ann for k in ("Node", "Unit", "Any")) else "local"
    if fn.args.vararg:
        prov[fn.args.vararg.arg] = "param"

    def prov_of(e: ast.AST) -> str:
        names = [n.id for n in ast.walk(e) if isinstance(n, ast.Name)]
        kinds = {prov.get(n) for n in names}
        # a call on something param-derived, or with param-derived arguments, yields param-derived objects
        if "param" in kinds:
            return "param"
        r = root_name(e)
        if r is not None and prov.get(r) == "self":
            return "self"
        if "self" in kinds:
            return "self"
        return "local"

    changed = True
    rounds = 0
    while changed and rounds < 6:
        changed = False
        rounds += 1
        for n in ast.walk(fn):
            pairs: List[Tuple[ast.AST, ast.AST]] = []
            if isinstance(n, ast.Assign):
                for t in n.targets:
                    pairs.append((t, n.value))
            elif isinstance(n, ast.For):
                pairs.append((n.target, n.iter))
            elif isinstance(n, ast.comprehension):
                pairs.append((n.target, n.iter))
            elif isinstance(n, ast.With):
                for it in n.items:
                    if it.optional_vars is not None:
                        pairs.append((it.optional_vars, it.context_expr))
            for target, value in pairs:
                k = prov_of(value)
                for t in ast.walk(target):
                    if isinstance(t, ast.Name) and isinstance(t.ctx, ast.Store):
                        old = prov.get(t.id)
                        new = k if old is None else ("param" if "param" in (old, k) else ("self" if "self" in (old, k) else "local"))
                        if new != old:
                            prov[t.id] = new
                            changed = True
    return prov


def all_field_writes(prog: Program) -> List[FieldWrite]:
    out: List[FieldWrite] = []
    for mi, ci, fn in prog.functions():
        sts = list(stores(fn))
        if not sts:
            continue
        prov = taint_from_params(fn)
        for stmt, field, recv, elementwise, value in sts:
            r = root_name(recv)
            p = prov.get(r, "local") if r else "local"
            out.append(FieldWrite(mi, ci, fn, stmt, field, recv, elementwise, value, p))
    return out
