"""
Self-test of a property check (thorough tier): seeded single-edit variants of the working tree (mutants must be
reported with the expected rule, behaviour-preserving twins must stay silent). Variants are analysed through the
Source overlay (and a private temporary directory for files that clang has to read); /repo is never written.
"""
import multiprocessing
import random
import re
import traceback
from typing import Any, Dict, List, Optional

from .core import AnalysisError, Source


class Edit:
    def __init__(self, name: str, file: str, old: str, new: str, expect: Optional[str] = None, nth: Optional[int] = None,
                 regex: bool = False, every: bool = False) -> None:
        self.name = name
        self.file = file
        self.old = old
        self.new = new
        self.expect = expect
        self.nth = nth
        self.regex = regex
        self.every = every

    def apply(self, text: str) -> Optional[str]:
        if self.every:
            return text.replace(self.old, self.new) if self.old in text else None
        if self.regex:
            ms = list(re.finditer(self.old, text, flags=re.S))
            if not ms:
                return None
            if self.nth is None and len(ms) != 1:
                return None
            m = ms[self.nth or 0] if (self.nth or 0) < len(ms) else None
            if m is None:
                return None
            return text[:m.start()] + m.expand(self.new) + text[m.end():]
        n = text.count(self.old)
        if n == 0:
            return None
        if self.nth is None:
            if n != 1:
                return None
            return text.replace(self.old, self.new, 1)
        if self.nth >= n:
            return None
        idx = -1
        for _ in range(self.nth + 1):
            idx = text.find(self.old, idx + 1)
        return text[:idx] + self.new + text[idx + len(self.old):]


    def overlay(self, base: Source) -> Optional[Dict[str, str]]:
        try:
            new_text = self.apply(base.read(self.file))
        except AnalysisError:
            return None
        return None if new_text is None else {self.file: new_text}


def apply_unified_diff(diff_text: str, read) -> Optional[Dict[str, str]]:
    """Pure-Python application of a unified diff (modifications of existing text files only); None if a hunk does not apply."""
    out: Dict[str, str] = {}
    cur: Optional[str] = None
    hunks: Dict[str, List[List[str]]] = {}
    for line in diff_text.splitlines():
        if line.startswith("+++ "):
            path = line[4:].split("\t")[0].strip()
            cur = path[2:] if path.startswith(("a/", "b/")) else path
            if cur == "/dev/null":
                return None
            hunks.setdefault(cur, [])
        elif line.startswith("--- ") or line.startswith("diff ") or line.startswith("index ") or line.startswith("new file") \
                or line.startswith("deleted file") or line.startswith("similarity") or line.startswith("rename"):
            if line.startswith(("new file", "deleted file", "rename")):
                return None
            continue
        elif line.startswith("@@") and cur is not None:
            hunks[cur].append([])
        elif cur is not None and hunks.get(cur) and (line[:1] in (" ", "+", "-") or line == ""):
            hunks[cur][-1].append(line if line else " ")
        elif line.startswith("\\"):
            continue
    for path, hs in hunks.items():
        try:
            lines = read(path).split("\n")
        except AnalysisError:
            return None
        pos = 0
        for h in hs:
            old = [l[1:] for l in h if l[0] in (" ", "-")]
            new = [l[1:] for l in h if l[0] in (" ", "+")]
            found = None
            for start in range(pos, len(lines) - len(old) + 1):
                if lines[start:start + len(old)] == old:
                    found = start
                    break
            if found is None:
                return None
            lines[found:found + len(old)] = new
            pos = found + len(new)
        out[path] = "\n".join(lines)
    return out or None


class Patch:
    """A multi-file variant given as a unified diff (path relative to /verif), optionally followed by single edits."""

    def __init__(self, name: str, diff: str, then: Optional[List[Edit]] = None, expect: Optional[str] = None) -> None:
        self.name, self.diff, self.then, self.expect = name, diff, list(then or []), expect
        self.file = diff

    def files(self) -> List[str]:
        import os
        from .core import VERIF_DIR
        with open(os.path.join(VERIF_DIR, self.diff)) as f:
            return [l[6:].strip() for l in f if l.startswith("+++ b/")]

    def overlay(self, base: Source) -> Optional[Dict[str, str]]:
        import os
        from .core import VERIF_DIR
        with open(os.path.join(VERIF_DIR, self.diff)) as f:
            text = f.read()
        ov = apply_unified_diff(text, base.read)
        if ov is None:
            return None
        for e in self.then:
            cur = ov.get(e.file)
            if cur is None:
                try:
                    cur = base.read(e.file)
                except AnalysisError:
                    return None
            new = e.apply(cur)
            if new is None:
                return None
            ov[e.file] = new
        return ov


class Metamorph:
    """a whole-tree mechanical rewrite (jfsa/metamorph.py) as a behaviour-preserving twin"""

    def __init__(self, variant: str) -> None:
        self.name, self.variant, self.file, self.expect = f"metamorphic {variant}", variant, "jellyfysh/**/*.py", None

    def overlay(self, base: Source) -> Optional[Dict[str, str]]:
        from . import metamorph
        return metamorph.variant_overlay(base, self.variant) or None


def _one(args) -> Dict[str, Any]:
    pid, repo, kind, edit, baseline = args
    from . import cli
    res: Dict[str, Any] = {"name": edit.name, "kind": kind, "file": edit.file}
    base = Source(repo)
    ov = edit.overlay(base)
    if ov is None:
        res["status"] = "skipped"
        return res
    src = Source(repo, ov)
    try:
        _, reports = cli.analyse_findings(pid, src)
        fs = [f for r in reports for f in r.findings if f.key not in baseline]
        res["findings"] = [f"{f.rule} {f.loc}: {f.construct}" for f in fs][:5]
        if kind == "mutant":
            hit = [f for f in fs if edit.expect is None or f.rule.startswith(edit.expect)]
            res["status"] = "detected" if hit else ("wrong-rule" if fs else "missed")
        else:
            res["status"] = "silent" if not fs else "false-alarm"
    except AnalysisError as e:
        res["status"] = "analysis-error"
        res["error"] = str(e)
    except Exception as e:
        res["status"] = "internal-error"
        res["error"] = traceback.format_exc()[-800:]
    finally:
        src.close()
    return res


def run(pid: str, mod, repo: str, seed: int, jobs: int) -> Dict[str, Any]:
    from . import cli
    src = Source(repo)
    _, reports = cli.analyse_findings(pid, src)
    baseline = frozenset(f.key for r in reports for f in r.findings)
    mutants: List[Edit] = list(getattr(mod, "MUTANTS", []))
    twins: List[Edit] = list(getattr(mod, "TWINS", []))
    # corpus of behaviour-preserving refactorings (multi-file diffs written by independent agents, kept under
    # /verif/refactorings): every one that touches a file this property consulted is a twin
    import glob
    import os
    from .core import VERIF_DIR
    for path in sorted(glob.glob(os.path.join(VERIF_DIR, "refactorings", "*.diff"))):
        pt = Patch("refactoring " + os.path.basename(path)[:-5], os.path.relpath(path, VERIF_DIR))
        if any(f in src.files_read for f in pt.files()):
            twins.append(pt)
    # whole-tree metamorphic variants (flip every if, guard clauses <-> else, rename all locals, ...)
    if any(f.endswith(".py") for f in src.files_read):
        from . import metamorph
        twins.extend(Metamorph(v) for v in metamorph.TRANSFORMS)
    tasks = [(pid, repo, "mutant", e, baseline) for e in mutants] + [(pid, repo, "twin", e, baseline) for e in twins]
    random.Random(seed).shuffle(tasks)
    if not tasks:
        return {"mutants_applied": 0, "mutants_detected": 0, "twins_applied": 0, "twins_silent": 0, "skipped": 0,
                "failures": [], "results": []}
    with multiprocessing.get_context("fork").Pool(min(jobs, len(tasks))) as pool:
        results = pool.map(_one, tasks, chunksize=1)
    results.sort(key=lambda r: (r["kind"], r["name"]))
    failures = []
    for r in results:
        if r["kind"] == "mutant" and r["status"] not in ("detected", "skipped"):
            failures.append(f"mutant '{r['name']}' in {r['file']}: {r['status']} {r.get('findings', r.get('error', ''))}")
        if r["kind"] == "twin" and r["status"] not in ("silent", "skipped"):
            failures.append(f"twin '{r['name']}' in {r['file']}: {r['status']} {r.get('findings', r.get('error', ''))}")
    return {
        "mutants_applied": sum(1 for r in results if r["kind"] == "mutant" and r["status"] != "skipped"),
        "mutants_detected": sum(1 for r in results if r["kind"] == "mutant" and r["status"] == "detected"),
        "twins_applied": sum(1 for r in results if r["kind"] == "twin" and r["status"] != "skipped"),
        "twins_silent": sum(1 for r in results if r["kind"] == "twin" and r["status"] == "silent"),
        "skipped": sum(1 for r in results if r["status"] == "skipped"),
        "failures": failures,
        "results": [{k: v for k, v in r.items() if k != "error"} for r in results],
    }
