"""
R3.2 -- dimensional consistency by units-of-measure inference.

Every quantity gets an unknown exponent vector over the base dimensions (L length, E energy, T time).  Expressions generate
linear constraints over these unknowns (product: sum, quotient: difference, power: scaling, sum / comparison: equality,
transcendental functions: argument dimensionless); the API contract (separations are lengths, velocities L/T, potential
changes energies, derivative returns E/T, ...) provides the anchors.  Exponents may be symbolic in the configured `power`,
so coefficients live in the field Q(p) of rational functions.  Constraints are added one by one to an echelon basis; the
first constraint that reduces to 0 = nonzero is reported with the construct it came from.
"""
from fractions import Fraction
from typing import Dict, List, Optional, Tuple

BASES = ("L", "E", "T")


# ---------------------------------------------------------------------------------------------------------------------
# rational functions in p
# ---------------------------------------------------------------------------------------------------------------------
class Poly:
    __slots__ = ("c",)

    def __init__(self, c=None):
        self.c = {k: Fraction(v) for k, v in (c or {}).items() if v != 0}

    @staticmethod
    def const(v):
        return Poly({0: Fraction(v)})

    def __add__(self, o):
        c = dict(self.c)
        for k, v in o.c.items():
            c[k] = c.get(k, Fraction(0)) + v
        return Poly(c)

    def __neg__(self):
        return Poly({k: -v for k, v in self.c.items()})

    def __mul__(self, o):
        c: Dict[int, Fraction] = {}
        for k1, v1 in self.c.items():
            for k2, v2 in o.c.items():
                c[k1 + k2] = c.get(k1 + k2, Fraction(0)) + v1 * v2
        return Poly(c)

    def is_zero(self):
        return not self.c

    def __eq__(self, o):
        return self.c == o.c

    def __repr__(self):
        if not self.c:
            return "0"
        out = []
        for k in sorted(self.c):
            v = self.c[k]
            out.append(f"{v}" if k == 0 else (f"{v}*p" if k == 1 else f"{v}*p^{k}"))
        return " + ".join(out)


class RF:
    """rational function num/den in the symbol p"""
    __slots__ = ("n", "d")

    def __init__(self, n, d=None):
        self.n = n if isinstance(n, Poly) else Poly.const(n)
        self.d = d if d is not None else Poly.const(1)
        # normalise constants
        if len(self.d.c) == 1 and 0 in self.d.c:
            k = self.d.c[0]
            self.n = Poly({a: b / k for a, b in self.n.c.items()})
            self.d = Poly.const(1)

    @staticmethod
    def p():
        return RF(Poly({1: 1}))

    def __add__(self, o):
        if self.d == o.d:
            return RF(self.n + o.n, self.d)
        return RF(self.n * o.d + o.n * self.d, self.d * o.d)

    def __neg__(self):
        return RF(-self.n, self.d)

    def __sub__(self, o):
        return self + (-o)

    def __mul__(self, o):
        return RF(self.n * o.n, self.d * o.d)

    def inv(self):
        return RF(self.d, self.n)

    def __truediv__(self, o):
        return self * o.inv()

    def is_zero(self):
        return self.n.is_zero()

    def __eq__(self, o):
        return (self.n * o.d + (-(o.n * self.d))).is_zero()

    def const_value(self) -> Optional[Fraction]:
        if len(self.d.c) == 1 and 0 in self.d.c and all(k == 0 for k in self.n.c):
            return self.n.c.get(0, Fraction(0)) / self.d.c[0]
        if self.n.is_zero():
            return Fraction(0)
        return None

    def __repr__(self):
        if len(self.d.c) == 1 and 0 in self.d.c and self.d.c[0] == 1:
            return f"{self.n}"
        return f"({self.n})/({self.d})"


ZERO = RF(0)
ONE = RF(1)


def dim(L=0, E=0, T=0) -> List[RF]:
    return [RF(L), RF(E), RF(T)]


def show_dim(v: List[RF]) -> str:
    parts = []
    for b, x in zip(BASES, v):
        if not x.is_zero():
            parts.append(f"{b}^({x})")
    return " ".join(parts) or "1"


class Term:
    """sum_i coef_i * D(var_i) + const"""

    def __init__(self, coefs: Optional[Dict[str, RF]] = None, const: Optional[List[RF]] = None) -> None:
        self.coefs = {k: v for k, v in (coefs or {}).items() if not v.is_zero()}
        self.const = const or dim()

    @staticmethod
    def var(name: str) -> "Term":
        return Term({name: ONE})

    @staticmethod
    def known(d: List[RF]) -> "Term":
        return Term({}, list(d))

    def __add__(self, o: "Term") -> "Term":
        c = dict(self.coefs)
        for k, v in o.coefs.items():
            c[k] = c[k] + v if k in c else v
        return Term(c, [a + b for a, b in zip(self.const, o.const)])

    def scale(self, k: RF) -> "Term":
        return Term({a: v * k for a, v in self.coefs.items()}, [x * k for x in self.const])

    def __sub__(self, o: "Term") -> "Term":
        return self + o.scale(RF(-1))


DIMLESS = Term()


class Conflict:
    def __init__(self, origin, residual: List[RF], text: str) -> None:
        self.origin, self.residual, self.text = origin, residual, text


class Solver:
    """incremental Gaussian elimination; rows: (pivot var, coefs without pivot, rhs)"""

    def __init__(self) -> None:
        self.rows: Dict[str, Tuple[Dict[str, RF], List[RF]]] = {}
        self.conflicts: List[Conflict] = []
        self.n_constraints = 0

    def _reduce(self, coefs: Dict[str, RF], rhs: List[RF]):
        coefs = dict(coefs)
        changed = True
        while changed:
            changed = False
            for v in list(coefs):
                if v in self.rows and not coefs[v].is_zero():
                    k = coefs.pop(v)
                    rc, rr = self.rows[v]
                    for a, b in rc.items():
                        coefs[a] = coefs[a] - b * k if a in coefs else -(b * k)
                    rhs = [x - y * k for x, y in zip(rhs, rr)]
                    changed = True
                    break
            coefs = {a: b for a, b in coefs.items() if not b.is_zero()}
        return coefs, rhs

    def add(self, term: Term, origin, text: str) -> bool:
        """constraint term == 0 (dimensionless); returns False on conflict"""
        self.n_constraints += 1
        coefs, rhs = self._reduce(term.coefs, [-x for x in term.const])
        if not coefs:
            if any(not x.is_zero() for x in rhs):
                self.conflicts.append(Conflict(origin, [-x for x in rhs], text))
                return False
            return True
        # choose pivot; normalise
        piv = sorted(coefs)[0]
        k = coefs.pop(piv)
        inv = k.inv()
        row = {a: b * inv for a, b in coefs.items()}
        rr = [x * inv for x in rhs]
        # substitute into existing rows
        for v, (rc, rhs2) in list(self.rows.items()):
            if piv in rc:
                kk = rc.pop(piv)
                for a, b in row.items():
                    rc[a] = rc[a] - b * kk if a in rc else -(b * kk)
                self.rows[v] = ({a: b for a, b in rc.items() if not b.is_zero()}, [x - y * kk for x, y in zip(rhs2, rr)])
        self.rows[piv] = (row, rr)
        return True

    def equal(self, a: Term, b: Term, origin, text: str) -> bool:
        return self.add(a - b, origin, text)

    def value(self, var: str) -> Optional[List[RF]]:
        if var in self.rows and not self.rows[var][0]:
            return self.rows[var][1]
        return None

    def term_value(self, t: Term) -> Optional[List[RF]]:
        coefs, rhs = self._reduce(t.coefs, [-x for x in t.const])
        if coefs:
            return None
        return [-x for x in rhs]
