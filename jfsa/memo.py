"""
Memo-key completeness (shared rule, e.g. R3.8 / R10.7): a value that is computed once and then looked up by a key

    if KEY not in CACHE: CACHE[KEY] = VALUE          (also: try CACHE[KEY] except KeyError, CACHE.get(KEY), CACHE.setdefault(KEY, VALUE))
    ... CACHE[KEY] ...

must be determined by the key: every input of the enclosing function (parameter, loop variable) that flows into VALUE must also
flow into KEY, otherwise a later call with the same key but another value of that input silently gets the stale result.  Decided by
a backward slice over the locals of the function (flow-insensitive may-dependence).  Only stores that are looked up again by the
same key expression in the same function are memo stores; a table that is filled for every key and never re-read there is not.
"""
import ast
from typing import Dict, List, Optional, Set, Tuple

from .core import Loc, Report, norm
from .pyfront import Program, param_names


def _roots(fn: ast.FunctionDef) -> Set[str]:
    out = {p for p in param_names(fn, False)} - {"self", "cls"}
    # (the variable of a comprehension is bound inside the expression it occurs in: it is no input, what it ranges over is)
    for n in ast.walk(fn):
        if isinstance(n, ast.For):
            out.update(x.id for x in ast.walk(n.target) if isinstance(x, ast.Name))
    return out


def _deps(fn: ast.FunctionDef, e: ast.AST, roots: Set[str]) -> Set[str]:
    """roots (parameters / loop variables) that may flow into e"""
    defs: Dict[str, List[ast.AST]] = {}
    for a in ast.walk(fn):
        if isinstance(a, ast.Assign):
            for t in a.targets:
                for x in ast.walk(t):
                    if isinstance(x, ast.Name) and isinstance(x.ctx, ast.Store):
                        defs.setdefault(x.id, []).append(a.value)
        elif isinstance(a, ast.AugAssign) and isinstance(a.target, ast.Name):
            defs.setdefault(a.target.id, []).append(a.value)
        elif isinstance(a, (ast.For, ast.comprehension)):
            for x in ast.walk(a.target):
                if isinstance(x, ast.Name):
                    defs.setdefault(x.id, []).append(a.iter)
        elif isinstance(a, ast.NamedExpr) and isinstance(a.target, ast.Name):
            defs.setdefault(a.target.id, []).append(a.value)
    seen: Set[str] = set()
    out: Set[str] = set()
    todo = [e]
    while todo:
        x = todo.pop()
        for n in ast.walk(x):
            if isinstance(n, ast.Name) and isinstance(n.ctx, ast.Load) and n.id not in seen:
                seen.add(n.id)
                if n.id in roots:
                    out.add(n.id)
                # a loop variable is a root of its own AND depends on what is iterated (e.g. `for cell, unit in table()`)
                todo.extend(defs.get(n.id, []) if n.id not in roots else [])
    return out


def memo_sites(fn: ast.FunctionDef) -> List[Tuple[ast.AST, ast.AST, ast.AST, ast.AST]]:
    """(cache expression, key, value, node) of the memo stores of a function"""
    sites = []
    reads: Set[Tuple[str, str]] = set()
    for n in ast.walk(fn):
        if isinstance(n, ast.Subscript) and isinstance(n.ctx, ast.Load):
            reads.add((norm(n.value), norm(n.slice)))
        if isinstance(n, ast.Call) and isinstance(n.func, ast.Attribute) and n.func.attr == "get" and n.args:
            reads.add((norm(n.func.value), norm(n.args[0])))
        if isinstance(n, ast.Compare) and len(n.ops) == 1 and isinstance(n.ops[0], (ast.In, ast.NotIn)):
            c = n.comparators[0]
            if isinstance(c, ast.Call) and isinstance(c.func, ast.Attribute) and c.func.attr == "keys":
                c = c.func.value
            reads.add((norm(c), norm(n.left)))
    for n in ast.walk(fn):
        if isinstance(n, ast.Assign) and len(n.targets) == 1 and isinstance(n.targets[0], ast.Subscript) \
                and not isinstance(n.targets[0].slice, ast.Slice):
            t = n.targets[0]
            cache_is_store = isinstance(t.value, ast.Name) or (isinstance(t.value, ast.Attribute) and isinstance(t.value.value, ast.Name)
                                                                and t.value.value.id in ("self", "cls"))
            # a table whose existing entries are updated (`C[K] += ..`, `C[K][i] += ..`, `C[K].append(..)`) accumulates, it does not memoise
            ck = f"{norm(t.value)}[{norm(t.slice)}]"
            accumulates = any((isinstance(x, ast.AugAssign) and norm(x.target).startswith(ck)) or
                              (isinstance(x, ast.Assign) and any(norm(tt).startswith(ck + "[") or norm(tt).startswith(ck + ".") for tt in x.targets)) or
                              (isinstance(x, ast.Call) and isinstance(x.func, ast.Attribute) and norm(x.func.value) == ck
                               and x.func.attr in ("append", "extend", "add", "update", "insert", "pop", "remove"))
                              for x in ast.walk(fn))
            if cache_is_store and not accumulates and (norm(t.value), norm(t.slice)) in reads:
                sites.append((t.value, t.slice, n.value, n))
        if isinstance(n, ast.Call) and isinstance(n.func, ast.Attribute) and n.func.attr == "setdefault" and len(n.args) == 2:
            sites.append((n.func.value, n.args[0], n.args[1], n))
    return sites


def check_memo_keys(prog: Program, rep: Report, rule: str, prefixes: Tuple[str, ...]) -> int:
    n = 0
    for mi, ci, fn in prog.functions():
        if not mi.file.startswith(prefixes):
            continue
        sites = memo_sites(fn)
        if not sites:
            continue
        roots = _roots(fn)
        local_stores = {x.id for x in ast.walk(fn) if isinstance(x, ast.Name) and isinstance(x.ctx, ast.Store)}
        for cache, key, value, node in sites:
            # a purely local table (created in this function) is not a cache that outlives the call
            if isinstance(cache, ast.Name) and cache.id in local_stores:
                continue
            kd, vd = _deps(fn, key, roots), _deps(fn, value, roots)
            if not kd:
                continue            # a constant key: a slot, not a memo table
            missing = sorted(vd - kd)
            n += 1
            rep.ob(rule, not missing, Loc(mi.file, node.lineno, f"{ci.name + '.' if ci else ''}{fn.name}"), node,
                   f"`{norm(cache)}` is looked up by `{norm(key)}` (inputs {sorted(kd)}), but the stored value also depends on {missing}: a later "
                   f"call with the same key and another value of {missing} gets the stale entry")
    return n
